"""C12 — a compiled table image is internally consistent (translation validation with proved checkers)."""
import random, re, os, time
from concurrent.futures import ThreadPoolExecutor
from .. import common, corpus, gen_table as G

THEOREMS = ["Lou.C12.arena_alloc_inv", "Lou.C12.arena_objects_disjoint", "Lou.C12.index_get_sound",
            "Lou.C12.checkImage_sound", "Lou.C12.slot_opcode", "Lou.C12.checkTable_sound", "Lou.C12.checkTable_defsFound", "Lou.C12.lookup_complete",
            "Lou.C12.lookup_complete_char", "Lou.C12.fwd_chain_pairwise", "Lou.C12.fwd_buckets_disjoint",
            "Lou.C12.compileEntry_invF", "Lou.C12.compile_consistent", "Lou.C12.compile_consistent_unfinalised",
            "Lou.C12.compile_defsFound", "Lou.C12.compile_defsFound_unfinalised",
            "Lou.Chain.insR_sorted", "Lou.C12.insR_charSorted"]

CLAIM = dict(
    text=("Kernel-checked: (1) arena_alloc_inv — the bump allocator of the table image, for ANY sequence of allocation and "
          "reservation sizes (hence any number of reallocations): objects 8-aligned, pairwise disjoint, inside the used part, never "
          "at offset 0, bytesUsed <= tableSize, and every offset handed out earlier is preserved by growth; (2) checkImage_sound / "
          "checkTable_sound — the two executable checkers return [] only if the readable conjunctions ImageConsistent (every "
          "stored reference is the start of an allocated object whose size covers the layout of the expected kind, embedded pass "
          "references designate grouping / swap rules, one kind per object, objects disjoint and inside the used part) and "
          "TableConsistent (every stored rule index resolves, chains duplicate-free, every rule in the bucket of the hash of its "
          "first two characters / cells — case-folded for context rules of a finalised table —, character and cell chains hold "
          "only rules of that character / cell, definition rules, forward chains longest first / always last among equals / "
          "definition order otherwise, character chains non-definition before definition rules, pass chains by decreasing "
          "length) hold; (3) lookup_complete — in a consistent table a linked rule is in the bucket the lookup computes and the "
          "chain walk stops at it or at an earlier member; (4) compile_consistent(_unfinalised) — EVERY table the Lean compile "
          "model produces for entries of the fragment F0' (any prefix = any number of run-time additions, finalised or not) "
          "satisfies all of TableConsistent (invariant CInvF over putChar/putDots/addRule/the four chain inserters); "
          "(5) checkTable_defsFound / compile_defsFound(_unfinalised) — an empty checker result also means that every character and "
          "every cell of a linked character definition has its record in the character / cell buckets (a record unlinked from its "
          "bucket chain is a violation), and every table of the compile model has that property; the image checker also demands "
          "that an indicator or emphasis slot designates a rule of exactly the opcode the slot is for. "
          "Checked on every run (translation validation): the proved checkers are executed by the Lean driver on the image of "
          "the REAL compiler — logical table from DUMP, every stored reference with the size its layout needs from RAWDUMP (walks "
          "buckets, chains, character/cell records, indicator and emphasis slots, decoded pass programs, match patterns, "
          "hyphenation states, display maps), allocated objects from the allocator hook H3 — for all shipped tables, "
          "grammar-generated tables and every inspected prefix of 200-600 run-time additions forcing several reallocations; and "
          "the Lean allocator must hand out the same offsets and table sizes as the real one for the same request sizes."),
    note=("For tables outside the fragment F0' (multipass, match, hyphenation, emphasis, base/context re-filing, display maps) and "
          "for all raw-image clauses the claim rests on running the proved checkers on each real image, not on a theorem about the "
          "C compiler. Pointers held across a relocation are a C-level matter observed by ASan in the same runs. Finding F6 (repaired in /repo): "
          "an undefined grouping/swap name after a valid one embeds rule reference 0."),
    technique="Lean 4 proofs (allocator invariant, checker soundness, compile-model invariant) + translation validation of real images",
    design="DESIGN.md §7 C12")

F6_TABLE = "space \\s 0\nsign a 1\nsign b 2\nsign x 3\ngrouping paren () 126,345\nnoback pass2 {paren}nosuch @3\n"
F6_SWAP = "space \\s 0\nsign a 1\nsign b 2\nswapcd sw ab 1,2\nnoback context [%sw]%nosuch %sw\n"
REBUCKET = ("space \\s 0\nlowercase a 1\nlowercase b 2\nbase uppercase A a\nbase uppercase B b\n"
            "noback context \"AB\" @12\nnoback begword ab 13\nnoback always ab 14\n")


def objs_of(line, disp):
    return [(int(a), int(b), int(c)) for d, a, b, c in re.findall(r" \| O (\d) (\d+) (\d+) (\d+)", line) if int(d) == disp]


def arena_tokens(hs, objs):
    """request sizes for MARENA; a reservation (allocateSpaceInTranslationTable(.., NULL, 250000, ..) of
    compileHyphenation, not reported by the hook) is inserted where the observed table size can only be
    explained by it.  Returns (tokens, number of reservations)."""
    toks, nres = [], 0
    used, size = hs + 8, 2 * hs
    for off, sz, tsz in objs:
        need = used + (sz + 7) // 8 * 8
        pred = size if need <= size else need + need // 8
        if pred != tsz:
            rn = used + 250000
            rsize = size if rn <= size else rn + rn // 8
            pred2 = rsize if need <= rsize else need + need // 8
            if pred2 == tsz:
                toks.append("r250000"); nres += 1
                size = rsize
        if need > size:
            size = need + need // 8
        used = need
        toks.append(str(sz))
    return toks, nres


def sig_of(v):
    f = []
    for x in v.split(":"):
        if "=" in x:
            break
        f.append(x)
    return "C12:" + ":".join(f)


def run_model_parallel(lines, nproc=None, timeout=3600):
    nproc = nproc or max(1, min(common.NCPU, 12))
    if len(lines) < 2 * nproc:
        return common.run_model(lines, timeout=timeout) if lines else []
    # balance by line length
    order = sorted(range(len(lines)), key=lambda i: -len(lines[i]))
    buckets = [[] for _ in range(nproc)]
    load = [0] * nproc
    for i in order:
        k = load.index(min(load))
        buckets[k].append(i); load[k] += len(lines[i]) + 2000
    res = [None] * len(lines)

    def work(b):
        out = common.run_model([lines[i] for i in b], timeout=timeout)
        for i, o in zip(b, out):
            res[i] = o
    with ThreadPoolExecutor(nproc) as ex:
        list(ex.map(work, buckets))
    return res


BOUNDARY_BASE = "space \\s 0\nletter a 1\nletter b 2\n"


def boundary_probes(k):
    """rules whose compilation allocates several objects; (text, [sizes in allocation order], what).  A relocation of the
    image at the 2nd, 3rd … allocation happens while the compiler holds pointers to the objects allocated just before."""
    c = 0x0900 + 8 * k
    return [("always \\x%04x 1" % c, [64, 64], "putChar in addForwardRuleWithSingleChar"),
            ("always a %s" % G.dots_str(64 + k % 190 + 1), [64, 64], "putDots in addBackwardRuleWithSingleCell"),
            ("letter \\x%04x %s" % (c + 1, G.dots_str(64 + (k + 50) % 190 + 1)), [64, 64, 64], "putChar/putDots/addRule in compileCharDef"),
            ("base uppercase \\x%04x \\x%04x" % (c + 2, c + 3), [64, 64], "second putChar in base"),
            ("grouping g%s \\x%04x\\x%04x %s,%s" % ("abcdefghijklmnopqrstuvwxyz"[k % 26] * (1 + k // 26), c + 4, c + 5,
                                                      G.dots_str(64 + (k + 90) % 190 + 1), G.dots_str(64 + (k + 140) % 190 + 1)),
             [64, 64, 64, 64, 72, 64, 64], "putChar/putDots/addRule in compileGrouping"),
            ("noback match a ab%s b 1" % "ab"[k % 2], [72, 16], "pattern allocation after addRule in match")]


def steer(slack, lo, hi):
    """filler sizes (64 / 72 bytes) that bring the free space of the image into [lo, hi)"""
    out = []
    while slack >= hi:
        if (slack - lo) % 64 >= hi - lo and slack - 72 >= lo:
            out.append(72); slack -= 72
        else:
            out.append(64); slack -= 64
    return out if lo <= slack < hi else None


def boundary_script(base, used, size, rounds):
    """ADD operations that make the image grow exactly at the j-th allocation of a multi-allocation rule, for every probe
    and every j ≥ 2; Python mirrors the allocator to place 64/72-byte filler rules.  Returns (ops, expected relocations)."""
    ops, expect = [], []
    k = 0
    for rnd in range(rounds):
        for pi in range(len(boundary_probes(0))):
            nsz = len(boundary_probes(0)[pi][1])
            for j in range(2, nsz + 1):
                text, sizes, what = boundary_probes(k)[pi]
                k += 1
                lo = sum((x + 7) // 8 * 8 for x in sizes[:j - 1])
                hi = lo + 8 if what.startswith("pattern") else lo + (sizes[j - 1] + 7) // 8 * 8
                fill = steer(size - used, lo, hi)
                if fill is None:
                    # not enough room left before the boundary: cross it with fillers first
                    while size - used >= 64:
                        ops.append("ADD %s %s" % (base, common.hexbytes("always a 1"))); used += 64
                    need = used + 64
                    size = need + need // 8
                    ops.append("ADD %s %s" % (base, common.hexbytes("always a 1"))); used += 64
                    fill = steer(size - used, lo, hi) or []
                for f in fill:
                    ops.append("ADD %s %s" % (base, common.hexbytes("always a 1" if f == 64 else "always ab 1"))); used += f
                expect.append((len(ops), j, what, text))
                ops.append("ADD %s %s" % (base, common.hexbytes(text)))
                for sz in sizes:
                    need = used + (sz + 7) // 8 * 8
                    if need > size:
                        size = need + need // 8
                    used = need
                # the real pattern size is not predicted: resynchronise with fillers is not possible, so a match probe
                # ends a round
                ops += ["DUMP %s nofinal" % base, "RAWDUMP %s nofinal" % base]
                if what.startswith("pattern"):
                    return ops, expect, True
    return ops, expect, False


class Snapshot:
    """one inspected state of one table list: DUMP + RAWDUMP + the allocator log so far"""
    def __init__(self, case, label, dump, raw, objs_t, objs_d, replay):
        self.case, self.label, self.dump, self.raw = case, label, dump, raw
        self.objs_t, self.objs_d, self.replay = objs_t, objs_d, replay


def snapshots_of(case):
    """walk the result lines of a case: accumulate the allocator log, emit a Snapshot at every DUMP/RAWDUMP pair"""
    snaps = []
    ot, od = [], []
    dump = None
    nadd = 0
    for k, (op, o) in enumerate(zip(case.ops, case.out)):
        ot += objs_of(o, 0); od += objs_of(o, 1)
        w = op.split(" ")[0]
        if w == "ADD":
            nadd += 1
        elif w == "DUMP":
            dump = o.rsplit(" e=", 1)[0]
        elif w == "RAWDUMP":
            raw = o.rsplit(" e=", 1)[0]
            snaps.append(Snapshot(case, "%s@%d" % (case.id, nadd), dump, raw, list(ot), list(od),
                                  {"script": case.setup + case.ops[:k + 1]}))
    return snaps


def run(tier):
    v = common.Verdict("C12", tier)
    rng = random.Random(common.seed() * 1000003 + 12)
    common.lean_obligations(v, THEOREMS)
    try:
        exe = common.build_harness()
        v.obligation("harness builds from /repo working tree (hooks on, ASan+UBSan)", True)
    except common.BuildError as e:
        v.obligation("harness builds from /repo working tree (hooks on, ASan+UBSan)", False, str(e)[-2000:])
        return v.finish()
    quick = tier == "quick"
    cases = []
    dist = {"shipped_tables": 0, "shipped_not_compilable": 0, "generated_tables": 0, "generated_rejected": 0,
            "addition_sequences": 0, "additions": 0, "additions_accepted": 0, "snapshots": 0, "reallocations_during_additions": 0,
            "objects_checked": 0, "references_checked": 0, "indicator_slots": 0, "pass_references": 0, "pattern_objects": 0, "hyphenation_tables": 0,
            "reservations_explained": 0, "context_rules_refiled": 0, "collision_buckets": 0, "kinds": {}}
    # ---- shipped tables
    shipped = corpus.quick_tables() if quick else corpus.all_tables()
    for i, tn in enumerate(shipped):
        p = corpus.tpath(tn)
        cases.append(common.Case("s%d" % i, ["HOOK arena 1"], ["CHK " + p, "DUMP " + p, "RAWDUMP " + p],
                                 {"kind": "shipped", "name": tn}))
    # ---- fixed tables: F6 (grouping and swap variant), re-filed context rule
    # and a table whose swap and grouping rules lie beyond offset 0x10000 of the rule area (more than 512 KB of objects in
    # front of them): references embedded in multipass programs are stored in two 16-bit halves (seeded change C12-D)
    far = ["space \\s 0"] + ["letter %s %s" % (ch, d) for ch, d in zip("abcdefghij", "1 12 14 145 15 124 1245 125 24 245".split())]
    words = ["".join("abcdefghij"[(k // 10 ** d) % 10] for d in range(4)) for k in range(7000 if quick else 9000)]
    far += ["always %s 1-2-3-4-5" % wd + "-6" * (k % 3) for k, wd in enumerate(words)]
    far += ["swapcd farswap abc 14,1,12", "grouping fargrp ab 3,6", "noback context [%farswap] %farswap",
            "noback pass2 @1[%farswap]@2 %farswap", "nofor pass2 [{fargrp] {fargrp", "noback correct \"c\"[%farswap] *"]
    FAR = "\n".join(far) + "\n"
    for nm, txt in (("f6g.ctb", F6_TABLE), ("f6s.ctb", F6_SWAP), ("rebucket.ctb", REBUCKET), ("far.ctb", FAR)):
        cases.append(common.Case("fix-" + nm, ["HOOK arena 1", "TBL %s %s" % (nm, common.hexbytes(txt))],
                                 ["CHK " + nm, "DUMP " + nm, "RAWDUMP " + nm], {"kind": "fixed", "name": nm, "text": txt}))
    # ---- indicator slots: up to 6 modes besides capitals (5 exist: the sixth is refused), up to 11 emphasis classes (10 exist), every
    # indicator opcode of each, the computer-braille and sign indicators, a hyphenation dictionary behind the slot rows
    def slots_table(k):
        L = ["space \\s 0", "lowercase a 1", "lowercase b 12", "uppercase A 17", "digit 1 2", "punctuation . 256", "include slots.dic"]
        nm = [1, 3, 5, 5, 6, 4][k % 6] if k < 6 else rng.choice([1, 2, 3, 4, 5, 5, 5, 6])
        ne = [0, 2, 10, 11, 10, 9][k % 6] if k < 6 else rng.choice([0, 3, 8, 9, 10, 10, 11])
        def cells():
            return "-".join("".join(sorted(rng.sample("123456", rng.randint(1, 3)))) for _ in range(rng.randint(1, 2)))
        mode_ops = ["modeletter", "begmodeword", "endmodeword", "begmode", "endmode", "begmodephrase", "endmodephrase", "lenmodephrase"]
        emph_ops = ["emphletter", "begemphword", "endemphword", "begemph", "endemph", "begemphphrase", "endemphphrase", "lenemphphrase"]
        blocks = []
        for m in range(nm):
            att = "digit" if (m == 0 and rng.random() < 0.5) else "md" + "abcdefgh"[m]
            b = [] if att == "digit" else ["attribute %s %s" % (att, "ab"[m % 2])]
            for op in (mode_ops if (k < 6 or rng.random() < 0.5) else rng.sample(mode_ops, rng.randint(1, 8))):
                if op == "endmodephrase":
                    b.append("%s %s %s %s" % (op, att, rng.choice(["before", "after"]), cells()))
                elif op == "lenmodephrase":
                    b.append("%s %s %d" % (op, att, rng.randint(1, 4)))
                else:
                    b.append("%s %s %s" % (op, att, cells()))
            blocks.append(b)
        for e in range(ne):
            nme = (["italic", "underline", "bold"] + ["ec" + x for x in "abcdefghijkl"])[e]
            L.append("emphclass " + nme)     # the first three names and their order are fixed by the compiler
            b = []
            # a class has either the indicators without context (begemph/endemph) or those for words and phrases
            style = (["emphletter", "begemph", "endemph"] if (e + k) % 3 == 0 else
                     ["emphletter", "begemphword", "endemphword", "begemphphrase", "endemphphrase", "lenemphphrase"])
            for op in (style if (k < 6 or rng.random() < 0.5) else rng.sample(style, rng.randint(1, len(style)))):
                if op == "endemphphrase":
                    b.append("%s %s %s %s" % (op, nme, rng.choice(["before", "after"]), cells()))
                elif op == "lenemphphrase":
                    b.append("%s %s %d" % (op, nme, rng.randint(1, 4)))
                elif op in ("endemph", "endemphword") and rng.random() < 0.3:
                    continue
                else:
                    b.append("%s %s %s" % (op, nme, cells()))
            blocks.append(b)
        blocks.append(["capsletter 6", "begcapsword 6-6", "endcapsword 6-3", "begcaps 6-6-6", "endcaps 6-36", "begcapsphrase 56-6",
                       "endcapsphrase %s 56-3" % rng.choice(["before", "after"]), "lencapsphrase 3"])
        blocks.append(["begcomp 456-346", "endcomp 456-156"])
        blocks.append(["letsign 56", "numsign 3456", "nocontractsign 56-56", "nonumsign 56-3", "undefined 3456-1456"])
        if k >= 3:
            rng.shuffle(blocks)
        return "\n".join(L + [x for b in blocks for x in b]) + "\n"
    for k in range(8 if quick else 200):
        nm_ = "slots%d.ctb" % k
        txt = slots_table(k)
        cases.append(common.Case("fix-" + nm_, ["HOOK arena 1", "TBL slots.dic " + common.hexbytes("UTF-8\na1b\n1ba\n"),
                                                "TBL %s %s" % (nm_, common.hexbytes(txt))],
                                 ["CHK " + nm_, "DUMP " + nm_, "RAWDUMP " + nm_], {"kind": "fixed", "name": nm_, "text": txt}))
    # ---- cells that share one bucket of the cell table (values equal modulo HASHNUM need virtual dots 9..f): chains of
    # 4 to 7 records, some added at run time (every table already has 0xffff and, when used, dots 478 in bucket 401)
    def dots_of(v):
        return "".join("123456789abcdef"[b] for b in range(15) if v >> b & 1) or "0"
    for k in range(4 if quick else 80):
        res = 401 if k % 2 == 0 else rng.randrange(1123)
        vals = [x for x in range(0x8001, 0xffff) if x % 1123 == res]
        rng.shuffle(vals)
        vals = vals[:rng.randint(4, 7)]
        chars = rng.sample(range(0x2460, 0x24ff), len(vals))
        lines = ["space \\s 0", "sign a 1"] + ["sign \\x%04x %s" % (c, dots_of(x)) for c, x in zip(chars, vals)]
        ninfile = rng.randint(1, len(vals) - 1)
        nm_ = "cellcol%d.ctb" % k
        txt = "\n".join(lines[:2 + ninfile]) + "\n"
        # (compiled, not yet used: a use would finalise it and refuse the additions)
        ops = ["ADD %s %s" % (nm_, common.hexbytes("# compile without finalising")), "DUMP %s nofinal" % nm_, "RAWDUMP %s nofinal" % nm_]
        for l in lines[2 + ninfile:]:
            ops += ["ADD %s %s" % (nm_, common.hexbytes(l)), "DUMP %s nofinal" % nm_, "RAWDUMP %s nofinal" % nm_]
        ops += ["DUMP " + nm_, "RAWDUMP " + nm_]
        cases.append(common.Case("fix-" + nm_, ["HOOK arena 1", "TBL %s %s" % (nm_, common.hexbytes(txt))], ops,
                                 {"kind": "fixed", "nochk": True, "name": nm_, "text": txt + "# added at run time:\n" + "\n".join(lines[2 + ninfile:])}))
    # ---- the display-table image grows at run time too (its own allocator and its own cache list): several hundred
    # `display` rules over new characters, the image inspected again and again (seeded change C12-H re-pointed the cache
    # entry after the comparison that finds it)
    for k in range(1 if quick else 6):
        nm_ = "dispgrow%d.ctb" % k
        txt = "space \\s 0\nsign a 1\ndisplay b 12\n"
        ops = ["ADD %s %s" % (nm_, common.hexbytes("# compile without finalising")), "DUMP %s nofinal" % nm_, "RAWDUMP %s nofinal" % nm_]
        for j in range(900 if quick else rng.randint(900, 2500)):
            ops.append("ADD %s %s" % (nm_, common.hexbytes("display \\x%04x %s" % (0x3000 + j, dots_of(0x8000 | (1 + (j * 7) % 0x7ffe))))))
            if j % 150 == 149:
                ops += ["DUMP %s nofinal" % nm_, "RAWDUMP %s nofinal" % nm_]
        ops += ["DUMP " + nm_, "RAWDUMP " + nm_]
        cases.append(common.Case("fix-" + nm_, ["HOOK arena 1", "TBL %s %s" % (nm_, common.hexbytes(txt))], ops,
                                 {"kind": "fixed", "nochk": True, "name": nm_, "text": txt + "# + run-time display rules\n"}))
    # ---- a rule offered after the table was used: it is refused; were it accepted (seeded change C12-G), a context rule over
    # upper-case letters would sit in the bucket of its literal characters, where the case-folding lookup never looks
    for k in range(2 if quick else 20):
        nm_ = "late%d.ctb" % k
        ups = rng.sample("ABCDEFGHIJKLMNOPQRSTUVWXYZ", 3)
        txt = "space \\s 0\n" + "".join("lowercase %s %s\nbase uppercase %s %s\n" % (u.lower(), d, u, u.lower())
                                          for u, d in zip(ups, ["1", "12", "14"])) + "always %s%s 1245\n" % (ups[0].lower(), ups[1].lower())
        late = ["noback context \"%s%s\" @123456" % (ups[0], ups[1]), "noback context \"%s%s\"[\"%s\"] @1" % (ups[1], ups[2], ups[0].lower()),
                "always %s%s 123" % (ups[2].lower(), ups[0].lower())]
        ops = ["CHK " + nm_, "FWD %s 4 20 - 12 %s - -" % (nm_, common.wide(ups[0] + ups[1])), "DUMP " + nm_, "RAWDUMP " + nm_]
        for l in late:
            ops += ["ADD %s %s" % (nm_, common.hexbytes(l)), "DUMP " + nm_, "RAWDUMP " + nm_]
        cases.append(common.Case("fix-" + nm_, ["HOOK arena 1", "TBL %s %s" % (nm_, common.hexbytes(txt))], ops,
                                 {"kind": "fixed", "name": nm_, "text": txt + "# offered after use:\n" + "\n".join(late)}))
    # ---- generated tables
    ngen = 110 if quick else 16000
    kinds = ["onetoone", "f0", "multipass", "mixed", "extras", "extras"]
    for i in range(ngen):
        kind = kinds[i % len(kinds)]
        hy = "gh%d.dic" % i if (kind == "extras" and i % 4 == 0) else None
        t = G.gen_table(rng, kind, hyph=hy) if kind == "extras" else G.gen_table(rng, kind)
        if rng.random() < 0.3:
            head = [r for r in t.rules[:1]]
            rest = t.rules[1:]
            if kind != "extras":
                rng.shuffle(rest)
            t.rules = head + rest
        tn = "g%d.ctb" % i
        setup = ["HOOK arena 1", "TBL %s %s" % (tn, common.hexbytes(t.text()))]
        if hy:
            setup.append("TBL %s %s" % (hy, common.hexbytes(G.gen_hyph_dic(rng, t))))
        cases.append(common.Case("g%d" % i, setup, ["CHK " + tn, "DUMP " + tn, "RAWDUMP " + tn],
                                 {"kind": "generated", "gkind": kind, "name": tn, "text": t.text()}))
    # ---- run-time additions: before the first translation, DUMP/RAWDUMP without finalising
    seqs = []
    if quick:
        seqs = [("empty", None, 600, -60), ("empty", None, 600, 25), ("gen", "f0", 600, 20), ("gen", "extras", 600, 20),
                ("shipped", "en-us-g1.ctb", 450, 50), ("shipped", "es-g1.ctb", 350, 50)]
    else:
        seqs = [("empty", None, 600, -200), ("empty", None, 600, 5), ("empty", None, 600, 7)]
        seqs += [("gen", k, rng.randint(300, 600), rng.choice([5, 10, 20])) for k in ["f0", "extras", "mixed", "multipass"] * 20]
        seqs += [("shipped", tn, rng.randint(500, 600), 25) for tn in
                 ["en-us-g1.ctb", "en-us-g2.ctb", "es-g1.ctb", "fr-bfu-comp6.utb", "en-gb-g1.utb", "cs-g1.ctb",
                  "nl-NL-g0.utb", "en-us-comp6.ctb", "en-us-comp8.ctb", "unicode-braille.utb"]
                 if os.path.exists(os.path.join(corpus.TABLES, tn))]
    want_reallocs = 3
    bases = []
    for si, (bk, arg, n, every) in enumerate(seqs):
        t = G.Tbl()
        setup = ["HOOK arena 1"]
        if bk == "empty":
            base = "a%d.ctb" % si
            t.rules.append(G.Rule("space", [0x20], [0])); t.charcell[0x20] = 0; t.attrs[0x20] = "space"
            setup.append("TBL %s %s" % (base, common.hexbytes(t.text())))
        elif bk == "gen":
            base = "a%d.ctb" % si
            t = G.gen_table(rng, arg)
            setup.append("TBL %s %s" % (base, common.hexbytes(t.text())))
        else:
            base = corpus.tpath(arg)
            G.gen_alphabet(rng, t)          # only a pool of characters / cells for the generated additions
            t.rules = []
        bases.append((base, t, setup))
    # measure the free space of every base (the allocator is deterministic) to decide how many long rules a sequence needs
    meas = [common.Case("m%d" % si, [x for x in setup if x.startswith("TBL")], ["RAWDUMP %s nofinal" % base], {})
            for si, (base, t, setup) in enumerate(bases)]
    common.run_cases(exe, meas, batch=1, timeout=600)
    for si, ((bk, arg, n, every), (base, t, setup)) in enumerate(zip(seqs, bases)):
        fat = 0.0
        f = meas[si].out[0].split(" ") if meas[si].out else []
        if len(f) > 4 and f[1] == "t" and f[2] != "null":
            used, size = int(f[3]), int(f[4])
            total = 0
            for _ in range(want_reallocs + 1):
                total += size - used + 64
                used = size + 64
                size = used + used // 8
            fat = min(0.6, max(0.0, (1.25 * total / n - 75.0) / 600.0))
        ops = ["ADD %s %s" % (base, common.hexbytes("# compile without finalising")),
               "DUMP %s nofinal" % base, "RAWDUMP %s nofinal" % base]
        texts = []
        for k in range(n):
            txt, kind = G.gen_addition(rng, t, k + 1000 * si, malformed=0.08, fat=fat)
            texts.append((txt, kind))
            ops.append("ADD %s %s" % (base, common.hexbytes(txt)))
            # every < 0: every prefix of the first -every additions, then every 20th
            if (every < 0 and (k < -every or (k + 1) % 20 == 0)) or (every > 0 and (k + 1) % every == 0) or k == n - 1:
                ops += ["DUMP %s nofinal" % base, "RAWDUMP %s nofinal" % base]
        # finally the finalised image
        ops += ["DUMP %s" % base, "RAWDUMP %s" % base]
        cases.append(common.Case("add%d" % si, setup, ops, {"kind": "additions", "base": bk, "arg": arg, "texts": texts, "fat": fat}))
    # ---- relocation while the compiler holds pointers: steer the free space so that the image grows at the j-th allocation
    #      of a rule that allocates several objects (the allocator is deterministic; phase 1 measures the base)
    probe = common.Case("bprobe", ["HOOK arena 1", "TBL bb.ctb " + common.hexbytes(BOUNDARY_BASE)],
                        ["ADD bb.ctb " + common.hexbytes("# measure")], {"kind": "probe"})
    common.run_cases(exe, [probe], batch=1)
    bobjs = objs_of(probe.out[0], 0) if probe.out else []
    nb = 0
    if bobjs:
        hs = 0
        used0 = None
        # bytesUsed after the compile = header + 8 * (last offset) + ceil8(last size)
        rawc = common.Case("bprobe2", ["TBL bb.ctb " + common.hexbytes(BOUNDARY_BASE)], ["RAWDUMP bb.ctb nofinal"], {})
        common.run_cases(exe, [rawc], batch=1)
        f = rawc.out[0].split(" ")
        used0, size0 = int(f[3]), int(f[4])
        for bi in range(2 if quick else 40):
            base = "bb%d.ctb" % bi
            ops = ["ADD %s %s" % (base, common.hexbytes("# compile without finalising"))]
            # a different phase per case: some fillers first
            used, size = used0, size0
            for _ in range(bi * 3):
                ops.append("ADD %s %s" % (base, common.hexbytes("always a 1"))); used += 64
            bops, expect, _ = boundary_script(base, used, size, 4)
            expect = [(a + len(ops), j, w, tx) for a, j, w, tx in expect]
            ops += bops + ["DUMP %s" % base, "RAWDUMP %s" % base]
            cases.append(common.Case("bnd%d" % bi, ["HOOK arena 1", "TBL %s %s" % (base, common.hexbytes(BOUNDARY_BASE))], ops,
                                     {"kind": "additions", "base": "boundary", "arg": "boundary", "texts": [], "expect": expect}))
            nb += 1
    t0 = time.time()
    common.run_cases(exe, cases, batch=1, timeout=1200)
    v.notes.append("harness phase %.1fs" % (time.time() - t0))
    # ---- did the steered relocations happen where they were aimed?
    hits, misses = {}, []
    for c in cases:
        if c.meta.get("expect") is None or c.fault:
            continue
        for opi, j, what, text in c.meta["expect"]:
            if opi >= len(c.out):
                continue
            o = objs_of(c.out[opi], 0)
            prev = None
            for q in range(opi - 1, -1, -1):
                po = objs_of(c.out[q], 0)
                if po:
                    prev = po[-1][2]; break
            grown = [i + 1 for i, x in enumerate(o) if x[2] != (o[i - 1][2] if i else prev)]
            if grown == [j] or (what.startswith("pattern") and grown == [2]):
                hits[what] = hits.get(what, 0) + 1
            else:
                misses.append("%s: aimed at allocation %d of %r, image grew at %s (sizes %s)" % (c.id, j, text, grown, [x[1] for x in o]))
    if nb:
        v.obligation("steering: the image is relocated at the aimed allocation inside multi-allocation rules (putChar/putDots/addRule/"
                     "pattern while the compiler holds pointers)", len(hits) >= 5 and len(misses) <= sum(hits.values()) // 4,
                     "hits %s; misses %s" % (hits, misses[:3]))
    dist["relocations_inside_rule"] = hits
    # ---- snapshots -> model lines
    lines, tags = [], []
    for c in cases:
        kind = c.meta["kind"]
        if c.fault:
            v.violation("C12:fault:%s:%s" % (c.fault["kind"], c.fault["frame"]),
                        "fault while compiling / adding / dumping (%s): %s %s" % (kind, c.fault["kind"], c.fault.get("detail", "")),
                        {"script": c.setup + c.ops[:max(1, c.fault.get("op_index", 0) + 1)], "stderr": c.fault.get("stderr_tail", "")[-800:]})
            continue
        if kind != "additions":
            if not c.out or not (c.out[0].startswith("C 1") or (c.meta.get("nochk") and c.out[0].startswith("D 1"))):
                dist["shipped_not_compilable" if kind == "shipped" else "generated_rejected"] += 1
                continue
            dist["shipped_tables" if kind == "shipped" else "generated_tables"] += 1
        else:
            dist["addition_sequences"] += 1
            rets = [o for op, o in zip(c.ops, c.out) if op.startswith("ADD ")][1:]
            dist["additions"] += len(rets)
            dist["additions_accepted"] += sum(1 for o in rets if o.startswith("D 1"))
            sizes = [x[2] for o in c.out for x in objs_of(o, 0)]
            first = objs_of(c.out[0], 0)
            base_size = first[-1][2] if first else 0
            dist["reallocations_during_additions"] += len(set(s for s in sizes if s > base_size))
            c.meta["reallocs"] = len(set(s for s in sizes if s > base_size))
        for s in snapshots_of(c):
            if s.dump is None or s.dump.startswith("T null") or "RAW t null" in s.raw:
                continue
            dist["snapshots"] += 1
            rt, rd = s.raw.split(" || ")
            L = re.findall(r" \| L ([0-9a-f]{4}) ([0-9a-f]{4})", rt)
            lines.append("MCHECKTABLE %s || L %s" % (s.dump, ",".join("%s:%s" % x for x in L) or "."))
            tags.append((s, "table", None))
            for part, ob, which in ((rt, s.objs_t, "t"), (rd, s.objs_d, "d")):
                if part.startswith("RAW %s null" % which):
                    continue
                lines.append("MCHECKIMAGE %s || O %s" % (part, " ".join("%d %d" % (o[0], o[1]) for o in ob)))
                tags.append((s, "image-" + which, None))
                hs = int(part.split(" ")[2])
                toks, nres = arena_tokens(hs, ob)
                lines.append("MARENA %d %d %s" % (hs, 2 * hs, " ".join(toks)))
                tags.append((s, "arena-" + which, (ob, nres)))
                dist["objects_checked"] += len(ob)
                dist["references_checked"] += part.count(" | r ")
                dist["indicator_slots"] += part.count(" slot:")
                if which == "t":
                    dist["pass_references"] += part.count(" passref:")
                    dist["pattern_objects"] += part.count(" | r pattern ")
                    if " | r hstates " in part:
                        dist["hyphenation_tables"] += 1
            for m in re.finditer(r" \| r (\w+) ", rt):
                dist["kinds"][m.group(1)] = dist["kinds"].get(m.group(1), 0) + 1
            if re.search(r" \| F \d+ \d+,", s.dump):
                dist["collision_buckets"] += 1
    t0 = time.time()
    out = run_model_parallel(lines)
    v.notes.append("model phase %.1fs (%d lines)" % (time.time() - t0, len(lines)))
    arena_bad, proto_bad = [], []
    for (s, what, extra), o in zip(tags, out):
        v.cov["evaluations"] += 1
        if o is None or o == "BADOP" or o == "UNSUPPORTED":
            proto_bad.append("%s %s: model driver answered %r" % (s.label, what, o))
            continue
        if what.startswith("arena"):
            ob, nres = extra
            exp = "AR " + (" ".join("%d:%d" % (x[0], x[2]) for x in ob) or ".")
            dist["reservations_explained"] += nres
            if o != exp:
                a, b = o.split(" "), exp.split(" ")
                d = [(i, x, y) for i, (x, y) in enumerate(zip(a, b)) if x != y][:2]
                arena_bad.append("%s %s: model allocator (offset:tableSize) differs from the H3 log at %s (model, real); %d vs %d entries"
                                 % (s.label, what, d, len(a), len(b)))
            continue
        if o == "CK ok":
            v._distinct.add((s.label, what))
            continue
        for viol in o.split(" ")[2:]:
            v.violation(sig_of(viol), "%s of %s (%s): %s" % (what, s.case.meta.get("name") or s.case.meta.get("arg") or s.case.id,
                                                               s.label, viol),
                        dict(s.replay, table_text=s.case.meta.get("text", "")[:3000], violation=viol))
    v.obligation("correspondence: Lean allocator hands out the offsets and table sizes of the real allocator (H3 log), across reallocations",
                 not arena_bad, "\n".join(arena_bad[:4]))
    v.obligation("protocol: every DUMP / RAWDUMP of a compiled table is understood by the Lean driver", not proto_bad,
                 "\n".join(proto_bad[:4]))
    # ---- expectations that keep the search honest
    # F6 (fixed in /repo 8ca2e784): an undefined grouping / swap name after a valid one is now a compile error.  Should such
    # a table compile again, checkImage must flag the embedded reference 0 (and the violation is reported as usual).
    f6 = [c for c in cases if c.id.startswith("fix-f6")]
    rejected = [c for c in f6 if c.out and c.out[0].startswith("C 0")]
    seen_f6 = any(s.startswith("C12:passref:zero") for s, _, _ in v.violations)
    v.obligation("the F6 witness tables (undefined grouping / swap name after a valid one) are rejected by the compiler, or else "
                 "flagged by checkImage", bool(f6) and (len(rejected) == len(f6) or seen_f6),
                 "the witness tables compile and the checker did not flag them")
    need = want_reallocs
    short = ["%s(%s)" % (c.id, ("%s in %s at op %s" % (c.fault["kind"], c.fault["frame"], c.fault.get("op_index"))) if c.fault else "reallocs=%s base=%s/%s accepted=%d/%d first=%s" % (c.meta.get("reallocs"), c.meta.get("base"), c.meta.get("arg"), sum(1 for op, o in zip(c.ops, c.out) if op.startswith("ADD ") and o.startswith("D 1")), sum(1 for op in c.ops if op.startswith("ADD ")), (c.out[0][:60] if c.out else None)))
             for c in cases if c.meta["kind"] == "additions" and c.meta["base"] != "boundary" and (c.fault or c.meta.get("reallocs", 0) < need)]
    v.obligation("every addition sequence runs to its end and forces the image to grow through several reallocations", not short, "faulted or too few: %s" % short)
    v.cov["distribution"] = dist
    for c in cases:
        if c.meta["kind"] == "additions" and not c.fault and len(v.cov["samples"]) < 3:
            v.sample({"base": c.meta["base"], "arg": c.meta["arg"], "additions": len(c.meta["texts"]),
                      "reallocations": c.meta.get("reallocs"), "first_rules": [t for t, _ in c.meta["texts"][:5]]})
    v.cov["rule"] = ("every shipped top-level table (%d; quick: the fixed subset) + %d grammar-generated tables (kinds onetoone, f0, multipass, "
                     "mixed, extras = base/context/grouping/swap/match/emphasis/indicators/display/hyphenation) + %d sequences of 200-600 "
                     "lou_compileString additions (definitions, translation rules, multipass rules, display rules, names and references, "
                     "match rules, 8%% malformed) on empty / generated / shipped bases with DUMP+RAWDUMP (not finalising) after every k-th "
                     "prefix and finalised at the end; each snapshot: checkTable, checkImage (translation + display image), allocator "
                     "replay; distinct by (snapshot, check)" % (len(shipped), ngen, len(seqs)))
    return v.finish()
