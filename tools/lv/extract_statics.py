"""Tie-G for C08: inventory of EVERY object with static storage duration in /repo/liblouis/*.c,
generated into lean/LouModel/Gen/Statics.lean.

Source of truth: clang-14's JSON AST (`-fsyntax-only -Xclang -ast-dump=json`), compiled with the flags of
the harness build (HAVE_CONFIG_H, LIBLOUIS_VERIF).  A VarDecl has static storage duration when it is
declared at file scope (not `extern` without initialiser) or carries `storageClass: static` inside a
function.  Only declarations whose spelling location is in the .c file itself are kept (gnulib and
system headers declare their own objects).  String literals are not objects with a name and are const.

Also extracted (for the `searchStartOnly` classification): the initialiser of `opcodeNames`
(compileTranslationTable.c), i.e. the table that `getOpcode` searches starting at `lastOpcode`.
"""
import json, os, re, subprocess
from . import common


def clang_ast(path):
    cmd = ["clang-14", "-fsyntax-only", "-Xclang", "-ast-dump=json", "-DHAVE_CONFIG_H", "-DLIBLOUIS_VERIF",
           '-DTABLESDIR="%s/tables"' % common.REPO, "-I%s/liblouis" % common.REPO, "-I%s/gnulib" % common.REPO,
           "-Wno-everything", path]
    p = subprocess.run(cmd, stdout=subprocess.PIPE, stderr=subprocess.PIPE)
    if p.returncode != 0 or not p.stdout:
        raise ValueError("clang-14 could not parse %s: %s" % (path, p.stderr.decode()[-500:]))
    return json.loads(p.stdout)


def is_const(qual):
    """is the OBJECT itself unmodifiable?  `const T x`, `T *const p`, arrays of const elements.
    (`const char *p` is a modifiable pointer.)"""
    q = qual.strip()
    # array: constness of the element type
    m = re.match(r"^(.*?)\s*((\[[^\]]*\])+)$", q)
    if m:
        return is_const(m.group(1))
    if "(*" in q:       # function pointer or pointer to array: const only if `(*const`
        return bool(re.search(r"\(\*\s*const", q))
    if "*" in q:
        return q.rsplit("*", 1)[1].strip().startswith("const")
    return bool(re.search(r"\bconst\b", q))


def scan_file(path):
    name = os.path.basename(path)
    ast = clang_ast(path)
    out = []
    cur_file = [None]
    cur_line = [0]

    def see(sub):
        if "file" in sub:
            cur_file[0] = sub["file"]
        if "line" in sub:
            cur_line[0] = sub["line"]

    def loc_file(node):
        """clang prints `file` and `line` only when they change; track them in traversal order
        (loc first, then range.begin, range.end — the order clang prints them)"""
        l = node.get("loc") or {}
        for sub in ((l.get("spellingLoc") or {}), (l.get("expansionLoc") or {}), l):
            see(sub)
        node["_line"] = cur_line[0]
        node["_file"] = cur_file[0]
        rng = node.get("range") or {}
        for end in ("begin", "end"):
            b = rng.get(end) or {}
            for sub in ((b.get("spellingLoc") or {}), (b.get("expansionLoc") or {}), b):
                see(sub)
        return node["_file"]

    def walk(node, func, depth):
        kind = node.get("kind")
        f = loc_file(node)
        if kind == "FunctionDecl":
            fn = node.get("name", "?")
            for ch in node.get("inner", []) or []:
                walk(ch, fn, depth + 1)
            return
        if kind == "VarDecl":
            here = f is not None and os.path.basename(f) == name and os.path.dirname(os.path.abspath(f)) == os.path.dirname(os.path.abspath(path))
            sc = node.get("storageClass")
            static_dur = (func is None and not (sc == "extern" and "init" not in node)) or (func is not None and sc == "static")
            if here and static_dur:
                qt = node.get("type", {}).get("qualType", "?")
                out.append({"name": node.get("name", "?"), "file": name, "func": func or "-",
                            "const": is_const(qt), "type": qt, "line": node["_line"],
                            "linkage": "static" if sc == "static" else ("extern" if sc == "extern" else "global")})
        for ch in node.get("inner", []) or []:
            walk(ch, func, depth + 1)

    walk(ast, None, 0)
    return out


ASSIGN_OPS = ("=", "+=", "-=", "*=", "/=", "%=", "&=", "|=", "^=", "<<=", ">>=", "++", "--")


def usage(path, vars_):
    """syntactic uses of each static in its scope (file, or the declaring function): how often it (or an
    element / member of it) is the target of an assignment or ++/--, how often its address is taken with
    unary &, how often it is passed bare as a call argument (an array or pointer handed to a callee that
    may write through it), and in which functions it is assigned.  Both branches of every #if are
    scanned (over-approximation).  The declaration itself is not counted."""
    from .extract_log import strip_comments, drop_preprocessor, tokens
    name = os.path.basename(path)
    toks = tokens(drop_preprocessor(strip_comments(open(path, encoding="utf-8", errors="replace").read())))
    stack, open_of = [], {}
    for i, (k, t, ln) in enumerate(toks):
        if t == "(":
            stack.append(i)
        elif t == ")" and stack:
            open_of[i] = stack.pop()
    res = {(v["func"], v["name"]): {"assigned": 0, "addr": 0, "bare": 0, "writers": set()} for v in vars_ if v["file"] == name}
    byname = {}
    for v in vars_:
        if v["file"] == name:
            byname.setdefault(v["name"], []).append(v)
    depth, func = 0, "-"
    for i, (k, t, ln) in enumerate(toks):
        if t == "{":
            if depth == 0:
                func = "-"
                if i > 0 and toks[i - 1][1] == ")" and (i - 1) in open_of:
                    o = open_of[i - 1]
                    if o > 0 and toks[o - 1][0] == "id":
                        func = toks[o - 1][1]
            depth += 1
            continue
        if t == "}":
            depth -= 1
            if depth == 0:
                func = "-"
            continue
        if k != "id" or t not in byname:
            continue
        prv = toks[i - 1][1] if i > 0 else ""
        if prv in (".", "->"):
            continue
        # which declaration does this mention refer to: the function-scope one if we are in that function
        cands = [v for v in byname[t] if v["func"] == func] or [v for v in byname[t] if v["func"] == "-"]
        if not cands:
            continue
        v = cands[0]
        if ln == v["line"]:
            continue                      # the declaration (with its initialiser)
        r = res[(v["func"], v["name"])]
        j = i + 1
        while j < len(toks):
            if toks[j][1] == "[":
                d = 0
                while j < len(toks):
                    if toks[j][1] == "[":
                        d += 1
                    elif toks[j][1] == "]":
                        d -= 1
                        if d == 0:
                            break
                    j += 1
                j += 1
            elif toks[j][1] in (".", "->") and j + 1 < len(toks) and toks[j + 1][0] == "id":
                j += 2
            else:
                break
        nxt = toks[j][1] if j < len(toks) else ""
        if nxt in ASSIGN_OPS or prv in ("++", "--"):
            r["assigned"] += 1
            r["writers"].add(func)
        if prv == "&":
            pp = toks[i - 2] if i > 1 else ("op", "(", 0)
            if not (pp[0] in ("id", "num") or pp[1] in (")", "]")):
                r["addr"] += 1
                r["writers"].add(func)
        if j == i + 1 and prv in ("(", ",") and nxt in (",", ")"):
            callee = ""
            if prv == "(" and i > 1:
                callee = toks[i - 2][1]
            if callee not in ("sizeof", "return", "if", "while"):
                r["bare"] += 1
                r["writers"].add(func)
    return res


def opcode_names():
    """the string table `opcodeNames` of compileTranslationTable.c, in order"""
    src = open(os.path.join(common.REPO, "liblouis", "compileTranslationTable.c"), encoding="utf-8", errors="replace").read()
    m = re.search(r"static\s+const\s+char\s*\*\s*opcodeNames\s*\[\s*CTO_None\s*\]\s*=\s*\{(.*?)\};", src, re.S)
    if not m:
        raise ValueError("opcodeNames initialiser not found: extractor out of date")
    body = re.sub(r"/\*.*?\*/", "", m.group(1), flags=re.S)
    body = re.sub(r"//[^\n]*", "", body)
    names = re.findall(r'"((?:\\.|[^"\\])*)"', body)
    if len(names) < 50:
        raise ValueError("opcodeNames: only %d names found" % len(names))
    return names


def lstr(s):
    return '"' + s.replace("\\", "\\\\").replace('"', '\\"').replace("\n", "\\n") + '"'


def generate():
    d = os.path.join(common.REPO, "liblouis")
    files = sorted(f for f in os.listdir(d) if f.endswith(".c"))
    allv = []
    for f in files:
        vs = scan_file(os.path.join(d, f))
        u = usage(os.path.join(d, f), vs)
        for v in vs:
            r = u[(v["func"], v["name"])]
            v["assigned"], v["addr"], v["bare"] = r["assigned"], r["addr"], r["bare"]
            v["writers"] = sorted(r["writers"])
        allv += vs
    # objects with external linkage are visible in the other files too
    for g in [v for v in allv if v["linkage"] == "global" and v["func"] == "-"]:
        for f in files:
            if f == g["file"]:
                continue
            ghost = dict(g, file=f, line=-1)
            r = usage(os.path.join(d, f), [ghost])[("-", g["name"])]
            g["assigned"] += r["assigned"]
            g["addr"] += r["addr"]
            g["bare"] += r["bare"]
            g["writers"] = sorted(set(g["writers"]) | {"%s:%s" % (f, w) for w in r["writers"]})
    if not allv:
        raise ValueError("no object with static storage duration found: extractor out of date")
    # stable order; the same name may be declared twice in a file (tentative definition + definition):
    # keep one entry per (file, func, name)
    seen = {}
    for v in allv:
        k = (v["file"], v["func"], v["name"])
        if k not in seen:
            seen[k] = v
        else:
            seen[k]["const"] = seen[k]["const"] and v["const"]
    vs = sorted(seen.values(), key=lambda v: (v["file"], v["func"], v["name"]))
    names = opcode_names()
    L = ["/- GENERATED by tools/lv/extract_statics.py from <REPO>/liblouis (clang-14 AST) — do not edit. -/",
         "namespace Lou.Gen.Statics", "",
         "structure StaticVar where", "  file : String", "  func : String    -- enclosing function, \"-\" at file scope",
         "  name : String", "  const : Bool     -- the object itself is const-qualified", "  type : String",
         "  assigned : Nat   -- syntactic assignments / ++ / -- to it, an element or a member (declaration excluded)",
         "  addrTaken : Nat  -- unary & applied to it", "  bareArg : Nat    -- passed by itself as a call argument",
         "  writers : List String  -- functions in which one of the three occurs (\"-\" = file scope)",
         "  deriving DecidableEq, Repr", "",
         "/-- the .c files scanned -/", "def files : List String := [%s]" % ", ".join(lstr(f) for f in files), "",
         "/-- every object with static storage duration defined in those files -/",
         "def statics : List StaticVar := ["]
    L.append(",\n".join("  ⟨%s, %s, %s, %s, %s, %d, %d, %d, [%s]⟩" % (
        lstr(v["file"]), lstr(v["func"]), lstr(v["name"]), "true" if v["const"] else "false", lstr(v["type"]),
        v["assigned"], v["addr"], v["bare"], ", ".join(lstr(w) for w in v["writers"])) for v in vs))
    L += ["]", "", "/-- `opcodeNames` (compileTranslationTable.c): the table `getOpcode` searches, starting at `lastOpcode` -/",
          "def opcodeNames : List String := [%s]" % ", ".join(lstr(n) for n in names), "",
          "end Lou.Gen.Statics", ""]
    out = os.path.join(common.LEAN, "LouModel", "Gen", "Statics.lean")
    os.makedirs(os.path.dirname(out), exist_ok=True)
    text = "\n".join(L)
    if not os.path.exists(out) or open(out).read() != text:
        open(out, "w").write(text)
    return {"statics": len(vs), "mutable": sum(1 for v in vs if not v["const"]), "opcodeNames": len(names)}
