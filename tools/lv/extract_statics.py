"""Tie-G for C08: inventory of EVERY object with static storage duration in /repo/liblouis/*.c,
generated into lean/LouModel/Gen/Statics.lean.

Source of truth: clang-14's JSON AST (`-fsyntax-only -Xclang -ast-dump=json`), compiled with the flags of
the harness build (HAVE_CONFIG_H, LIBLOUIS_VERIF).  A VarDecl has static storage duration when it is
declared at file scope (not `extern` without initialiser) or carries `storageClass: static` inside a
function.  Only declarations whose spelling location is in the .c file itself are kept (gnulib and
system headers declare their own objects).  String literals are not objects with a name and are const.

Also extracted (for the `searchStartOnly` classification): the initialiser of `opcodeNames`
(compileTranslationTable.c), i.e. the table that `getOpcode` searches starting at `lastOpcode`.
"""
import json, os, re, subprocess
from . import common


def clang_ast(path):
    cmd = ["clang-14", "-fsyntax-only", "-Xclang", "-ast-dump=json", "-DHAVE_CONFIG_H", "-DLIBLOUIS_VERIF",
           '-DTABLESDIR="%s/tables"' % common.REPO, "-I%s/liblouis" % common.REPO, "-I%s/gnulib" % common.REPO,
           "-Wno-everything", path]
    p = subprocess.run(cmd, stdout=subprocess.PIPE, stderr=subprocess.PIPE)
    if p.returncode != 0 or not p.stdout:
        raise ValueError("clang-14 could not parse %s: %s" % (path, p.stderr.decode()[-500:]))
    return json.loads(p.stdout)


def is_const(qual):
    """is the OBJECT itself unmodifiable?  `const T x`, `T *const p`, arrays of const elements.
    (`const char *p` is a modifiable pointer.)"""
    q = qual.strip()
    # array: constness of the element type
    m = re.match(r"^(.*?)\s*((\[[^\]]*\])+)$", q)
    if m:
        return is_const(m.group(1))
    if "(*" in q:       # function pointer or pointer to array: const only if `(*const`
        return bool(re.search(r"\(\*\s*const", q))
    if "*" in q:
        return q.rsplit("*", 1)[1].strip().startswith("const")
    return bool(re.search(r"\bconst\b", q))


def scan_file(path):
    name = os.path.basename(path)
    ast = clang_ast(path)
    out = []
    cur_file = [None]

    def loc_file(node):
        """clang prints `file` only when it changes; track it through the traversal order"""
        for key in ("loc", ):
            l = node.get(key) or {}
            for sub in (l, l.get("spellingLoc") or {}, l.get("expansionLoc") or {}):
                if "file" in sub:
                    cur_file[0] = sub["file"]
        rng = node.get("range") or {}
        for end in ("begin", "end"):
            b = rng.get(end) or {}
            for sub in (b, b.get("spellingLoc") or {}, b.get("expansionLoc") or {}):
                if "file" in sub:
                    cur_file[0] = sub["file"]
        return cur_file[0]

    def walk(node, func, depth):
        kind = node.get("kind")
        f = loc_file(node)
        if kind == "FunctionDecl":
            fn = node.get("name", "?")
            for ch in node.get("inner", []) or []:
                walk(ch, fn, depth + 1)
            return
        if kind == "VarDecl":
            here = f is not None and os.path.basename(f) == name and os.path.dirname(os.path.abspath(f)) == os.path.dirname(os.path.abspath(path))
            sc = node.get("storageClass")
            static_dur = (func is None and not (sc == "extern" and "init" not in node)) or (func is not None and sc == "static")
            if here and static_dur:
                qt = node.get("type", {}).get("qualType", "?")
                out.append({"name": node.get("name", "?"), "file": name, "func": func or "-",
                            "const": is_const(qt), "type": qt, "line": (node.get("loc") or {}).get("line")
                            or ((node.get("loc") or {}).get("spellingLoc") or {}).get("line") or 0,
                            "linkage": "static" if sc == "static" else ("extern" if sc == "extern" else "global")})
        for ch in node.get("inner", []) or []:
            walk(ch, func, depth + 1)

    walk(ast, None, 0)
    return out


def opcode_names():
    """the string table `opcodeNames` of compileTranslationTable.c, in order"""
    src = open(os.path.join(common.REPO, "liblouis", "compileTranslationTable.c"), encoding="utf-8", errors="replace").read()
    m = re.search(r"static\s+const\s+char\s*\*\s*opcodeNames\s*\[\s*CTO_None\s*\]\s*=\s*\{(.*?)\};", src, re.S)
    if not m:
        raise ValueError("opcodeNames initialiser not found: extractor out of date")
    body = re.sub(r"/\*.*?\*/", "", m.group(1), flags=re.S)
    body = re.sub(r"//[^\n]*", "", body)
    names = re.findall(r'"((?:\\.|[^"\\])*)"', body)
    if len(names) < 50:
        raise ValueError("opcodeNames: only %d names found" % len(names))
    return names


def lstr(s):
    return '"' + s.replace("\\", "\\\\").replace('"', '\\"').replace("\n", "\\n") + '"'


def generate():
    d = os.path.join(common.REPO, "liblouis")
    files = sorted(f for f in os.listdir(d) if f.endswith(".c"))
    allv = []
    for f in files:
        allv += scan_file(os.path.join(d, f))
    if not allv:
        raise ValueError("no object with static storage duration found: extractor out of date")
    # stable order; the same name may be declared twice in a file (tentative definition + definition):
    # keep one entry per (file, func, name)
    seen = {}
    for v in allv:
        k = (v["file"], v["func"], v["name"])
        if k not in seen:
            seen[k] = v
        else:
            seen[k]["const"] = seen[k]["const"] and v["const"]
    vs = sorted(seen.values(), key=lambda v: (v["file"], v["func"], v["name"]))
    names = opcode_names()
    L = ["/- GENERATED by tools/lv/extract_statics.py from <REPO>/liblouis (clang-14 AST) — do not edit. -/",
         "namespace Lou.Gen.Statics", "",
         "structure StaticVar where", "  file : String", "  func : String    -- enclosing function, \"-\" at file scope",
         "  name : String", "  const : Bool     -- the object itself is const-qualified", "  type : String",
         "  deriving DecidableEq, Repr", "",
         "/-- the .c files scanned -/", "def files : List String := [%s]" % ", ".join(lstr(f) for f in files), "",
         "/-- every object with static storage duration defined in those files -/",
         "def statics : List StaticVar := ["]
    L.append(",\n".join("  ⟨%s, %s, %s, %s, %s⟩" % (lstr(v["file"]), lstr(v["func"]), lstr(v["name"]),
                                                     "true" if v["const"] else "false", lstr(v["type"])) for v in vs))
    L += ["]", "", "/-- `opcodeNames` (compileTranslationTable.c): the table `getOpcode` searches, starting at `lastOpcode` -/",
          "def opcodeNames : List String := [%s]" % ", ".join(lstr(n) for n in names), "",
          "end Lou.Gen.Statics", ""]
    out = os.path.join(common.LEAN, "LouModel", "Gen", "Statics.lean")
    os.makedirs(os.path.dirname(out), exist_ok=True)
    text = "\n".join(L)
    if not os.path.exists(out) or open(out).read() != text:
        open(out, "w").write(text)
    return {"statics": len(vs), "mutable": sum(1 for v in vs if not v["const"]), "opcodeNames": len(names)}
