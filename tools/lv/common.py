"""Shared orchestration for the liblouis checks: builds, harness runs, verdicts,
evidence.  Python stdlib only."""
import hashlib, json, os, random, re, shutil, subprocess, sys, tempfile, time
from concurrent.futures import ThreadPoolExecutor

VERIF = os.path.dirname(os.path.dirname(os.path.dirname(os.path.abspath(__file__))))
REPO = os.environ.get("VERIF_REPO", "/repo")
LEAN = os.path.join(VERIF, "lean")
BUILD = os.path.join(VERIF, ".build")
SRC = ["compileTranslationTable", "lou_translateString", "lou_backTranslateString",
       "commonTranslationFunctions", "metadata", "pattern", "logging", "utils", "maketable"]
CFLAGS = ["-g", "-O1", "-fno-omit-frame-pointer", "-fsanitize=address,undefined",
          "-fno-sanitize-recover=undefined", "-DHAVE_CONFIG_H", "-DLIBLOUIS_VERIF",
          '-DTABLESDIR="%s/tables"' % REPO, "-I%s/liblouis" % REPO, "-I%s/gnulib" % REPO,
          "-Wno-everything"]
NCPU = os.cpu_count() or 4


def seed():
    try:
        return int(os.environ.get("VERIF_SEED", "1"))
    except ValueError:
        return 1


def sh(cmd, **kw):
    return subprocess.run(cmd, stdout=subprocess.PIPE, stderr=subprocess.STDOUT, text=True, **kw)


# ---------------------------------------------------------------- builds

def _hash_files(paths, extra=""):
    h = hashlib.sha256(extra.encode())
    for p in sorted(paths):
        h.update(p.encode())
        with open(p, "rb") as f:
            h.update(f.read())
    return h.hexdigest()[:16]


def build_harness(log=None):
    """Compile /repo/liblouis/*.c (hooks on, ASan+UBSan) + harness/lvh.c.
    Cached by content hash of every input.  Returns the binary path; raises
    BuildError with the compiler output when the tree does not compile."""
    # liblouis.h is generated from liblouis.h.in by the repo's own makefile
    hin = os.path.join(REPO, "liblouis", "liblouis.h.in")
    hout = os.path.join(REPO, "liblouis", "liblouis.h")
    if os.path.exists(hin) and (not os.path.exists(hout) or os.path.getmtime(hin) > os.path.getmtime(hout)):
        sh(["make", "-C", os.path.join(REPO, "liblouis"), "liblouis.h"])
    srcs = [os.path.join(REPO, "liblouis", s + ".c") for s in SRC]
    hdrs = [os.path.join(REPO, "liblouis", h) for h in ("internal.h", "liblouis.h", "config.h")]
    hfiles = [os.path.join(VERIF, "harness", f) for f in sorted(os.listdir(os.path.join(VERIF, "harness")))
              if f.endswith((".c", ".h"))]
    key = _hash_files(srcs + hdrs + hfiles, " ".join(CFLAGS))
    d = os.path.join(BUILD, "h-" + key)
    exe = os.path.join(d, "lvh")
    if os.path.exists(exe):
        return exe
    # drop older harness builds
    if os.path.isdir(BUILD):
        for old in os.listdir(BUILD):
            if old.startswith("h-") and old != "h-" + key:
                shutil.rmtree(os.path.join(BUILD, old), ignore_errors=True)
    os.makedirs(d, exist_ok=True)
    jobs = []
    for s, p in zip(SRC, srcs):
        jobs.append(["clang-14"] + CFLAGS + ["-c", p, "-o", os.path.join(d, s + ".o")])
    jobs.append(["clang-14"] + CFLAGS + ["-c", os.path.join(VERIF, "harness", "lvh.c"),
                                         "-I" + os.path.join(VERIF, "harness"), "-o", os.path.join(d, "lvh.o")])
    with ThreadPoolExecutor(NCPU) as ex:
        res = list(ex.map(lambda c: sh(c), jobs))
    bad = [r for r in res if r.returncode != 0]
    if bad:
        shutil.rmtree(d, ignore_errors=True)
        raise BuildError("\n".join(r.stdout for r in bad))
    r = sh(["clang-14", "-fsanitize=address,undefined", "-Wl,--wrap=fopen", "-o", exe + ".tmp"] +
           [os.path.join(d, s + ".o") for s in SRC] + [os.path.join(d, "lvh.o")])
    if r.returncode != 0:
        shutil.rmtree(d, ignore_errors=True)
        raise BuildError(r.stdout)
    os.rename(exe + ".tmp", exe)
    return exe


class BuildError(Exception):
    pass


_lean_built = {}


def lake_build(targets=("LouModel", "LouProofs", "loumodel")):
    """lake build; returns (ok, output)."""
    key = tuple(targets)
    if key in _lean_built:
        return _lean_built[key]
    r = sh(["lake", "build"] + list(targets), cwd=LEAN)
    _lean_built[key] = (r.returncode == 0, r.stdout)
    return _lean_built[key]


def theorem_modules(theorems):
    """the modules (files under lean/) whose text declares a theorem of one of these names"""
    files = []
    for root in ("LouProofs", "LouModel"):
        for dp, dn, fn in os.walk(os.path.join(LEAN, root)):
            files += [os.path.join(dp, f) for f in fn if f.endswith(".lean")]
    texts = {f: open(f, encoding="utf-8").read() for f in files}
    mods = []
    for n in theorems:
        last = n.split(".")[-1]
        ns = ".".join(n.split(".")[:-1])
        for f, t in texts.items():
            if re.search(r"(?m)^\s*(?:@\[[^\]]*\]\s*)?theorem\s+(?:\S+\.)?%s\b" % re.escape(last), t) and ("namespace " + ns) in t:
                m = os.path.relpath(f, LEAN)[:-5].replace(os.sep, ".")
                if m not in mods:
                    mods.append(m)
    return sorted(mods)


def built_proof_modules():
    """the modules under lean/LouProofs that build on their own right now"""
    mods = []
    root = os.path.join(LEAN, "LouProofs")
    for dp, dn, fn in os.walk(root):
        for f in sorted(fn):
            if f.endswith(".lean"):
                rel = os.path.relpath(os.path.join(dp, f), LEAN)[:-5]
                mods.append(rel.replace(os.sep, "."))
    good = []
    for m in sorted(mods):
        r = sh(["lake", "build", m], cwd=LEAN)
        if r.returncode == 0:
            good.append(m)
    return good


def model_exe():
    return os.path.join(LEAN, ".lake", "build", "bin", "loumodel")


def run_model(lines, timeout=600):
    """Feed protocol lines to the compiled Lean model driver; returns output lines."""
    p = subprocess.run([model_exe()], input="\n".join(lines) + "\n", stdout=subprocess.PIPE,
                       stderr=subprocess.PIPE, text=True, timeout=timeout)
    if p.returncode != 0:
        raise RuntimeError("model driver failed: " + p.stderr[-2000:])
    return p.stdout.split("\n")[:-1] if p.stdout.endswith("\n") else p.stdout.split("\n")


# ---------------------------------------------------------------- axiom audit

FORBIDDEN = re.compile(r"\bsorry\b|\badmit\b|^axiom\s|native_decide|bv_decide|implemented_by|\bunsafe\s|maxHeartbeats\s+0", re.M)
ALLOWED_AXIOMS = {"propext", "Classical.choice", "Quot.sound"}


def strip_lean_comments(src):
    # remove block comments (nesting) and line comments
    out = []
    i = 0
    depth = 0
    n = len(src)
    while i < n:
        if src.startswith("/-", i):
            depth += 1
            i += 2
        elif depth and src.startswith("-/", i):
            depth -= 1
            i += 2
        elif depth:
            i += 1
        elif src.startswith("--", i):
            j = src.find("\n", i)
            i = n if j < 0 else j
        else:
            out.append(src[i])
            i += 1
    return "".join(out)


def grep_forbidden():
    hits = []
    for root in ("LouModel", "LouProofs"):
        for dp, _, fs in os.walk(os.path.join(LEAN, root)):
            for f in fs:
                if f.endswith(".lean"):
                    p = os.path.join(dp, f)
                    s = strip_lean_comments(open(p).read())
                    # string literals may legitimately contain the word "unsafe" etc.; none do here
                    for m in FORBIDDEN.finditer(s):
                        hits.append("%s: %s" % (os.path.relpath(p, LEAN), m.group(0).strip()))
    for f in ("Main.lean",):
        p = os.path.join(LEAN, f)
        if os.path.exists(p):
            s = strip_lean_comments(open(p).read())
            for m in re.finditer(r"\bsorry\b|\badmit\b|^axiom\s|native_decide|implemented_by", s, re.M):
                hits.append("%s: %s" % (f, m.group(0).strip()))
    return hits


def audit_theorems(names, imports=("LouProofs",)):
    """#print axioms for each theorem; returns {name: [axioms]} or {name: None} when missing."""
    src = "".join("import %s\n" % i for i in imports) + "".join("#print axioms %s\n" % n for n in names)
    os.makedirs(BUILD, exist_ok=True)
    fn = os.path.join(BUILD, "audit_%d.lean" % os.getpid())
    with open(fn, "w") as f:
        f.write(src)
    r = sh(["lake", "env", "lean", fn], cwd=LEAN)
    os.unlink(fn)
    out = r.stdout
    res = {}
    for n in names:
        m = re.search(r"'%s' depends on axioms: \[([^\]]*)\]" % re.escape(n), out, re.S)
        if m:
            res[n] = [a.strip() for a in m.group(1).replace("\n", " ").split(",") if a.strip()]
        elif re.search(r"'%s' does not depend on any axioms" % re.escape(n), out):
            res[n] = []
        else:
            res[n] = None
    return res, out


# ---------------------------------------------------------------- harness runs

class HarnessResult:
    def __init__(self):
        self.lines = []        # stdout lines
        self.fault = None      # dict(kind, frame, detail) if the process died
        self.stderr = ""


ASAN_RE = re.compile(r"ERROR: AddressSanitizer: (\S+)")
UBSAN_RE = re.compile(r"runtime error: (.*)")
FRAME_RE = re.compile(r"#\d+ 0x[0-9a-f]+ in (\S+) (/\S+?\.[ch])(?::(\d+))?")


def parse_fault(stderr, rc, timed_out=False):
    if timed_out:
        return {"kind": "timeout", "frame": "?", "detail": "wall-clock watchdog"}
    m = ASAN_RE.search(stderr)
    kind = None
    detail = ""
    if m:
        kind = "asan:" + m.group(1)
        mm = re.search(r"(READ|WRITE) of size (\d+)", stderr)
        if mm:
            detail = mm.group(1)
    else:
        m = UBSAN_RE.search(stderr)
        if m:
            kind = "ubsan"
            detail = m.group(1)[:120]
        elif "LeakSanitizer" in stderr:
            kind = "leak"
    if kind is None:
        if rc == 77:
            return {"kind": "tick-budget", "frame": "?", "detail": ""}
        kind = "exit:%d" % rc
    frame = "?"
    for fm in FRAME_RE.finditer(stderr):
        fn, path = fm.group(1), fm.group(2)
        if "/liblouis/" in path or path.endswith("lvh.c"):
            frame = "%s:%s" % (os.path.basename(path), fn)
            break
    if kind == "ubsan":
        mm = re.search(r"(\S+\.c):(\d+):\d+: runtime error", stderr)
        if mm and frame == "?":
            frame = os.path.basename(mm.group(1)) + ":" + mm.group(2)
    return {"kind": kind, "frame": frame, "detail": detail}


# freed blocks are handed out again at once (no ASan quarantine): state keyed on the ADDRESS of a freed table
# (stale caches surviving lou_free) only misbehaves when the address is reused
ASAN_REUSE = {"ASAN_OPTIONS": "detect_leaks=0:abort_on_error=0:exitcode=99:allocator_may_return_null=1:"
                              "quarantine_size_mb=0:thread_local_quarantine_size_kb=0"}


def run_harness(exe, lines, cwd, timeout=120, env=None, leak=False):
    e = dict(os.environ)
    e["ASAN_OPTIONS"] = "detect_leaks=%d:abort_on_error=0:exitcode=99:allocator_may_return_null=1" % (1 if leak else 0)
    e["UBSAN_OPTIONS"] = "print_stacktrace=1:halt_on_error=1"
    e.pop("LOUIS_TABLEPATH", None)
    if env:
        e.update(env)
    res = HarnessResult()
    try:
        p = subprocess.run([exe], input="\n".join(lines) + "\n", stdout=subprocess.PIPE, stderr=subprocess.PIPE,
                           text=True, cwd=cwd, env=e, timeout=timeout, errors="replace")
    except subprocess.TimeoutExpired as t:
        out = t.stdout or ""
        if isinstance(out, bytes):
            out = out.decode(errors="replace")
        res.lines = [l for l in out.split("\n") if l]
        res.fault = parse_fault("", -1, timed_out=True)
        return res
    res.lines = [l for l in p.stdout.split("\n") if l]
    res.stderr = p.stderr
    if p.returncode != 0:
        res.fault = parse_fault(p.stderr, p.returncode)
        if res.lines and res.lines[-1].startswith("FAULT kind=tick-budget"):
            res.fault = {"kind": "tick-budget", "frame": "?", "detail": res.lines[-1]}
    return res


class Case:
    """A self-contained script segment.  `setup` lines (TBL, HOOK ...) and `ops` lines;
    the harness prints one line per line of either."""
    def __init__(self, cid, setup, ops, meta=None):
        self.id = cid
        self.setup = list(setup)
        self.ops = list(ops)
        self.meta = meta or {}
        self.out = None      # list of result lines for ops (None for those not reached)
        self.fault = None

    def script(self):
        return ["CASE %s" % self.id] + self.setup + self.ops


def run_cases(exe, cases, batch=50, timeout=120, prelude=(), leak=False, workers=None, env=None):
    """Run cases in batches, each batch in a fresh harness process and a fresh scratch
    directory; a fault is attributed to the case (and op) that was executing and the
    rest of the batch is re-run.  Fills case.out / case.fault."""
    batches = [cases[i:i + batch] for i in range(0, len(cases), batch)]

    def run_batch(b):
        todo = list(b)
        while todo:
            d = tempfile.mkdtemp(prefix="lvh-", dir=scratch_root())
            try:
                lines = list(prelude)
                for c in todo:
                    lines += c.script()
                r = run_harness(exe, lines, d, timeout=timeout, leak=leak, env=env)
            finally:
                shutil.rmtree(d, ignore_errors=True)
            # split output by CASE markers
            idx = {c.id: c for c in todo}
            cur = None
            skip = len(prelude)
            outl = r.lines
            pos = 0
            # prelude lines produce one output line each
            pos = min(skip, len(outl))
            done = []
            for l in outl[pos:]:
                if l.startswith("CASE "):
                    cur = idx.get(l[5:])
                    if cur is not None:
                        cur.rawout = []
                        done.append(cur)
                    continue
                if cur is not None:
                    cur.rawout.append(l)
            for c in done:
                ns = len(c.setup)
                c.out = c.rawout[ns:]
                c.setup_out = c.rawout[:ns]
            if r.fault is None:
                leak_fault = None
                if leak and "LeakSanitizer" in r.stderr:
                    leak_fault = parse_fault(r.stderr, 99)
                    for c in todo:
                        c.batch_leak = leak_fault
                return
            # the last case that started is the faulting one
            if not done:
                for c in todo:
                    c.fault = dict(r.fault, detail="harness died before the first case: " + r.stderr[-300:])
                    c.out = []
                return
            bad = done[-1]
            bad.fault = dict(r.fault)
            nout = len(bad.rawout)
            if bad.rawout and bad.rawout[-1].startswith("FAULT "):
                nout -= 1          # the harness itself reported the fault as the op's result line
            bad.fault["op_index"] = nout - len(bad.setup)
            bad.fault["stderr_tail"] = r.stderr[-1500:]
            k = todo.index(bad)
            todo = todo[k + 1:]

    with ThreadPoolExecutor(workers or NCPU) as ex:
        list(ex.map(run_batch, batches))
    for c in cases:
        if c.out is None:
            c.out = []


def scratch_root():
    d = os.path.join(BUILD, "scratch")
    os.makedirs(d, exist_ok=True)
    return d


# ---------------------------------------------------------------- hex helpers

def wide(s):
    """list of ints or str -> protocol hex words"""
    if isinstance(s, str):
        s = [ord(c) for c in s]
    return "".join("%04x" % (c & 0xffff) for c in s) or "-"


def unwide(h):
    if h in ("-", ""):
        return []
    return [int(h[i:i + 4], 16) for i in range(0, len(h), 4)]


def hexbytes(b):
    if isinstance(b, str):
        b = b.encode("utf-8")
    return b.hex() or "-"


def unhexbytes(h):
    return b"" if h == "-" else bytes.fromhex(h)


def ints(s):
    if s in (".", "-", ""):
        return []
    return [int(x) for x in s.split(",")]


def parse_R(line):
    """Parse an 'R ...' result line into a dict (None when not an R line)."""
    if not line.startswith("R "):
        return None
    main, *extras = line.split(" | ")
    t = main.split(" ")
    d = {"ret": int(t[1]), "inlen": int(t[2]), "outlen": int(t[3]), "out": unwide(t[4])}
    for f in t[5:]:
        k, _, v = f.partition("=")
        d[k] = v
    d["passes"] = []
    d["allocs"] = []
    d["ticks"] = None
    d["tickrecs"] = []
    d["final"] = None
    d["log"] = []
    for e in extras:
        p = e.split(" ")
        if p[0] == "P":
            d["passes"].append({"dir": int(p[1]), "pass": int(p[2]), "in": unwide(p[3]), "out": unwide(p[4]),
                                "max": int(p[5]), "map": ints(p[6]), "realInlen": int(p[7]),
                                "cpos": int(p[8]), "cstat": int(p[9])})
        elif p[0] == "M":
            d["final"] = {"dir": int(p[1]), "map": ints(p[2]), "inlen": int(p[3]), "outlen": int(p[4])}
        elif p[0] == "TI":
            d["ti"] = (int(p[1]), int(p[2]))
        elif p[0] == "D":
            d["disp"] = p[1]
        elif p[0] == "A":
            d["allocs"].append(tuple(int(x) for x in p[1:6]))
        elif p[0] == "K":
            d["ticks"] = [int(x) for x in p[1:]]
        elif p[0] == "T":
            d["tickrecs"].append(tuple(int(x) for x in p[1:7]))
        elif p[0] == "LOG":
            for m in p[1:]:
                if m == ".":
                    continue
                lv, _, hx = m.partition(":")
                d["log"].append((int(lv), unhexbytes(hx).decode("utf-8", "replace")))
    d["e"] = int(d.get("e", 0))
    d["w"] = int(d.get("w", 0))
    return d


# ---------------------------------------------------------------- findings, verdict, evidence

def load_findings():
    p = os.path.join(VERIF, "known_findings.json")
    if not os.path.exists(p):
        return []
    return json.load(open(p))["findings"]


class Verdict:
    def __init__(self, prop, tier):
        self.prop = prop
        self.tier = tier
        self.t0 = time.time()
        self.violations = []      # (signature, what, replay-dict)
        self.known_hits = {}      # signature -> what
        self.broken = []          # (name, detail): broken proof obligations / correspondences
        self.obligations = []     # names
        self.discharged = []
        self.cov = {"evaluations": 0, "distinct_nontrivial": 0, "samples": []}
        self.assumptions = []
        self.findings = [f for f in load_findings() if f.get("property") == prop and f.get("status") == "known"]
        self.axioms = {}
        self.notes = []
        self._distinct = set()

    # -- obligations
    def obligation(self, name, ok, detail=""):
        self.obligations.append(name)
        if ok:
            self.discharged.append(name)
        else:
            self.broken.append((name, detail))

    # -- cases
    def count(self, key, nontrivial=True):
        self.cov["evaluations"] += 1
        if nontrivial and key not in self._distinct:
            self._distinct.add(key)

    def sample(self, s, limit=6):
        if len(self.cov["samples"]) < limit:
            self.cov["samples"].append(s)

    def violation(self, signature, what, replay):
        for f in self.findings:
            if re.search(f["signature"], signature):
                self.known_hits.setdefault(f["signature"], (f, what))
                return
        self.violations.append((signature, what, replay))

    def finish(self, level="proof", extra_cov=None, checker_cmd="", trusted=None):
        self.cov["distinct_nontrivial"] = len(self._distinct)
        rc = 0
        os.makedirs(os.path.join(VERIF, "replays"), exist_ok=True)
        for sig, (f, what) in self.known_hits.items():
            print("KNOWN-FINDING: property=%s %s [%s]" % (self.prop, f["what"], f.get("id", "")))
        seen = set()
        for sig, what, replay in self.violations:
            if sig in seen:
                continue
            seen.add(sig)
            h = hashlib.sha256(sig.encode()).hexdigest()[:10]
            path = os.path.join(VERIF, "replays", "%s-%s.json" % (self.prop, h))
            json.dump({"property": self.prop, "signature": sig, "what": what, "replay": replay,
                       "seed": seed(), "tier": self.tier}, open(path, "w"), indent=1)
            print("VIOLATION property=%s replay=%s" % (self.prop, path))
            print("  what: " + what[:400])
            rc = 1
        if self.broken and rc == 0:
            path = os.path.join(VERIF, "replays", "%s-broken.json" % self.prop)
            json.dump({"property": self.prop, "no_failing_input_found": True,
                       "broken": [{"obligation": n, "detail": d[:4000]} for n, d in self.broken],
                       "seed": seed(), "tier": self.tier}, open(path, "w"), indent=1)
            print("VIOLATION property=%s replay=%s no-failing-input-found" % (self.prop, path))
            for n, d in self.broken:
                print("  broken: %s: %s" % (n, d[:300].replace("\n", " / ")))
            rc = 1
        elif self.broken:
            for n, d in self.broken:
                print("  also broken: %s: %s" % (n, d[:300].replace("\n", " / ")))
        cov = dict(self.cov)
        cov["obligations"] = len(self.obligations)
        cov["discharged"] = len(self.discharged)
        cov["checker_cmd"] = checker_cmd or "cd lean && lake build LouModel LouProofs loumodel && lake env lean <#print axioms of the registered theorems>"
        cov["trusted_base"] = trusted or [
            "Lean 4.33.0 kernel; axioms allowed: propext, Classical.choice, Quot.sound",
            "tools/extract.py (clang-14 AST / regex extraction of constants and inventories)",
            "harness/lvh.c + hooks under LIBLOUIS_VERIF, ASan/UBSan as observers",
            "Lean compiler/runtime for executing the model driver (not for theorems)"]
        cov["obligation_names"] = self.obligations
        cov["broken"] = [n for n, _ in self.broken]
        cov["axioms"] = self.axioms
        cov["known_findings_hit"] = [f.get("id", sig) for sig, (f, _) in self.known_hits.items()]
        cov["rule"] = cov.get("rule", "")
        if self.notes:
            cov["notes"] = self.notes
        if extra_cov:
            cov.update(extra_cov)
        ev = {"property_id": self.prop, "tier": self.tier, "seed": seed(), "level": level,
              "coverage": cov, "assumptions": self.assumptions, "wall_s": round(time.time() - self.t0, 2),
              "violations": len(seen) + (1 if (self.broken and not seen) else 0)}
        os.makedirs(os.path.join(VERIF, "evidence"), exist_ok=True)
        json.dump(ev, open(os.path.join(VERIF, "evidence", "%s.json" % self.prop), "w"), indent=1)
        print("%s %s: %s  (%d obligations, %d discharged; %d evaluations, %d distinct non-trivial; %.1fs)" % (
            self.prop, self.tier, "OK" if rc == 0 else "FAILED", len(self.obligations), len(self.discharged),
            cov["evaluations"], cov["distinct_nontrivial"], time.time() - self.t0))
        return rc


def lean_obligations(v, theorems, extra_build_targets=()):
    """Standard step 1 of every check: regenerate Gen, lake build, grep, axiom audit."""
    from . import extract
    try:
        extract.generate()
        v.obligation("extract:Gen regenerated from /repo", True)
    except Exception as e:  # extractor could not find something: a broken tie
        v.obligation("extract:Gen regenerated from /repo", False, repr(e))
    ok, out = lake_build()
    imports = ("LouProofs",)
    if not ok:
        # some module of the library fails.  A property is affected only if the model (and its driver) or a module
        # that provides one of ITS theorems fails: build the proof modules one by one and audit against those that build
        okm, outm = lake_build(("LouModel", "loumodel"))
        mods = built_proof_modules() if okm else []
        failed = re.findall(r"(?m)^- (\S+)$", out)
        imports = tuple(mods)
        res, raw = audit_theorems(theorems, imports=imports) if mods else ({}, "")
        missing = [n for n in theorems if res.get(n) is None]
        ok = okm and not missing
        v.obligation("lake build LouModel loumodel and the proof modules of this property (other failing modules: %s)" % ",".join(failed),
                     ok, (outm if not okm else "theorems without a building module: %s\n" % missing) + out[-2500:])
    else:
        v.obligation("lake build LouModel LouProofs loumodel", ok, out[-3000:])
    hits = grep_forbidden()
    v.obligation("no sorry/admit/axiom/native_decide/bv_decide/implemented_by/unsafe in sources", not hits, "; ".join(hits))
    if ok:
        res, raw = audit_theorems(theorems, imports=imports)
        for n in theorems:
            ax = res.get(n)
            v.axioms[n] = ax
            good = ax is not None and set(ax) <= ALLOWED_AXIOMS
            v.obligation("theorem " + n, good, "missing" if ax is None else "axioms: %s" % ax)
    else:
        for n in theorems:
            v.obligation("theorem " + n, False, "library does not build")
    if ok and getattr(v, "tier", "quick") == "thorough":
        # independent re-check of the compiled modules that declare this property's theorems (Lean's `leanchecker`
        # replays the declarations of an .olean through the kernel, one module per call)
        mods = theorem_modules(theorems)
        bad = []
        for m in mods:
            r = sh(["lake", "env", "leanchecker", m], cwd=LEAN)
            if r.returncode != 0:
                bad.append("%s: %s" % (m, r.stdout[-300:]))
        v.obligation("leanchecker re-checks the modules declaring the theorems (%s)" % ", ".join(mods), not bad, "; ".join(bad))
    return ok
