"""Tie-G: regenerate lean/LouModel/Gen/*.lean from /repo's current sources."""


def generate():
    from . import extract_log
    extract_log.generate()
    from . import extract_errors
    extract_errors.generate()
