"""Tie-G: regenerate lean/LouModel/Gen/*.lean from /repo's current sources.
Idempotent: every generator rewrites its file only when the content changes."""


def generate():
    from . import extract_log, extract_consts, extract_meta
    extract_log.generate()
    extract_consts.generate()
    extract_meta.generate()
    from . import extract_log, extract_statics
    extract_statics.generate()
    from . import extract_errors
    extract_errors.generate()
