"""Tie-G: regenerate lean/LouModel/Gen/*.lean from /repo's current sources."""


def generate():
    """Idempotent: every generator rewrites its file only when the content changes."""
    from . import extract_meta
    extract_meta.generate()
