"""Tie-G: regenerate lean/LouModel/Gen/*.lean from /repo's current sources."""


def generate():
    from . import extract_log, extract_statics
    extract_log.generate()
    extract_statics.generate()
