"""Tie-G: regenerate lean/LouModel/Gen/*.lean from /repo's current sources."""
def generate():
    pass
