"""Shipped material used as realistic inputs: tables, display tables, dictionaries, words."""
import os, re, random, glob, json
from . import common

TABLES = os.path.join(common.REPO, "tables")

# a fixed, diverse subset for the quick tier (contractions, multipass, emphasis, computer braille,
# non-latin scripts, hyphenation includes, 8-dot)
QUICK_TABLES = [
    "en-us-g1.ctb", "en-us-g2.ctb", "en-ueb-g1.ctb", "en-ueb-g2.ctb", "en-us-comp8.ctb", "en-us-comp6.ctb",
    "en-gb-g1.utb", "en-GB-g2.ctb", "de-g0.utb", "de-g1.ctb", "de-g2.ctb", "fr-bfu-comp6.utb", "fr-bfu-g2.ctb",
    "es-g1.ctb", "es-g2.ctb", "nl-NL-g0.utb", "da-dk-g16.ctb", "da-dk-g26.ctb", "sv-1996.ctb", "no-no-g3.ctb",
    "ru-litbrl.ctb", "ru.ctb", "pl-pl-comp8.ctb", "cs-g1.ctb", "hu-hu-g1.ctb", "hu-hu-g2.ctb", "el.ctb",
    "ar-ar-g1.utb", "ar-ar-g2.ctb", "he-IL.utb", "hi-in-g1.utb", "ta-ta-g1.ctb", "ko-g1.ctb", "ko-2006-g2.ctb",
    "zh-tw.ctb", "zhcn-g1.ctb", "ja-kantenji.utb", "vi-vn-g1.ctb", "th-g1.utb", "nemeth.ctb", "en-ueb-math.ctb",
    "afr-za-g2.ctb", "pt-pt-g2.ctb", "it-it-comp6.utb", "fi.utb", "tr.ctb", "uk.utb", "unicode-braille.utb",
    "en-nabcc.utb", "ipa.utb",
]


def quick_tables():
    return [t for t in QUICK_TABLES if os.path.exists(os.path.join(TABLES, t))]


def all_tables():
    out = []
    for f in sorted(os.listdir(TABLES)):
        if f.endswith((".ctb", ".utb", ".tbl")):
            out.append(f)
    return out


def display_tables():
    return sorted(f for f in os.listdir(TABLES) if f.endswith(".dis"))


def dictionaries():
    return sorted(f for f in os.listdir(TABLES) if f.endswith(".dic"))


def tpath(name):
    return ",".join(os.path.join(TABLES, n) for n in name.split(","))


_words = None


def words():
    """(text_words, braille_strings) harvested from the yaml corpora of /repo/tests"""
    global _words
    if _words is not None:
        return _words
    text, brl = set(), set()
    pat = re.compile(r"^\s*-\s*\[(.*)\]\s*$")
    pat2 = re.compile(r"^\s*-\s+-\s+(.*)$")
    files = sorted(glob.glob(os.path.join(common.REPO, "tests", "braille-specs", "*.yaml")) +
                   glob.glob(os.path.join(common.REPO, "tests", "yaml", "*.yaml")))
    for fn in files:
        try:
            data = open(fn, encoding="utf-8", errors="replace").read()
        except OSError:
            continue
        for line in data.split("\n"):
            m = pat.match(line)
            items = []
            if m:
                inner = m.group(1)
                # crude flow-list split that respects quotes
                cur, q, parts = "", None, []
                for ch in inner:
                    if q:
                        if ch == q:
                            q = None
                        else:
                            cur += ch
                    elif ch in "\"'":
                        q = ch
                    elif ch == ",":
                        parts.append(cur.strip()); cur = ""
                    else:
                        cur += ch
                parts.append(cur.strip())
                items = parts[:2]
            else:
                m = pat2.match(line)
                if m:
                    items = [m.group(1).strip().strip("\"'")]
            for it in items:
                if not it or len(it) > 60 or it.startswith("{"):
                    continue
                if all(0x2800 <= ord(c) <= 0x28ff or c == " " for c in it):
                    brl.add(it)
                elif all(ord(c) < 0x10000 for c in it):
                    text.add(it)
    _words = (sorted(text), sorted(brl))
    return _words


def rand_input(rng, maxlen=24):
    """a mixed generator of forward inputs (list of code units)"""
    tw, bw = words()
    k = rng.random()
    if k < 0.55 and tw:
        n = rng.randint(1, 3)
        s = " ".join(rng.choice(tw) for _ in range(n))
        u = [ord(c) for c in s][:maxlen]
    elif k < 0.75:
        n = rng.randint(1, maxlen)
        u = [rng.choice(b"abcdefghijklmnopqrstuvwxyzABCDEFGHIJ 0123456789.,;:!?'\"-()") for _ in range(n)]
    elif k < 0.9:
        n = rng.randint(1, maxlen)
        pools = [(0x20, 0x7e), (0xa0, 0x17f), (0x370, 0x3ff), (0x400, 0x4ff), (0x5d0, 0x5ea), (0x600, 0x6ff),
                 (0x900, 0x97f), (0x2800, 0x28ff), (0x4e00, 0x4e80), (0xac00, 0xac80), (0xff00, 0xffff), (1, 0x1f)]
        lo, hi = rng.choice(pools)
        u = [rng.randint(lo, hi) if rng.random() < 0.8 else 0x20 for _ in range(n)]
    else:
        n = rng.randint(0, maxlen)
        u = [rng.choice([0x61, 0x20, 0xffff, 0, 0x41, 0x31, 0x2e, rng.randint(1, 0xffff)]) for _ in range(n)]
    return u


def rand_braille(rng, maxlen=24, dots_io=False):
    tw, bw = words()
    k = rng.random()
    if k < 0.5 and bw:
        s = " ".join(rng.choice(bw) for _ in range(rng.randint(1, 3)))
        cells = [(ord(c) - 0x2800) if c != " " else 0 for c in s][:maxlen]
    elif k < 0.85:
        cells = [rng.randint(0, 63) for _ in range(rng.randint(1, maxlen))]
    else:
        cells = [rng.randint(0, 255) for _ in range(rng.randint(0, maxlen))]
    if dots_io:
        return [0x8000 | c for c in cells]
    return [0x2800 | c for c in cells]


# ---------------------------------------------------------------------------------------------
# table-aware inputs: the strings of the table's own rules (from DUMP of the compiled table), so
# that contractions, joinwords, repeated-word rules, number rules ... actually fire
class Vocab:
    def __init__(self):
        self.by_op = {}       # opcode number -> list of (chars, dots)
        self.chars = []       # defined characters
        self.cells = []       # defined cells

    def sample_word(self, rng, maxlen=12):
        if not self.by_op:
            return [], []
        ops = sorted(self.by_op)
        tr = [o for o in ops if o >= 79]          # translation opcodes (contractions, word-position rules, ...)
        op = rng.choice(tr) if (tr and rng.random() < 0.7) else rng.choice(ops)
        c, d = rng.choice(self.by_op[op])
        return c[:maxlen], d[:maxlen]

    def text(self, rng, maxlen=24):
        """a few rule strings joined by blanks / nothing / punctuation / a digit run"""
        u = []
        for _ in range(rng.randint(1, 4)):
            w, _d = self.sample_word(rng)
            if u:
                k = rng.random()
                if k < 0.6:
                    u.append(0x20)
                elif k < 0.7:
                    u += [rng.choice(b".,;-'\"(")]
                elif k < 0.8:
                    u += [rng.choice(b"0123456789") for _ in range(rng.randint(1, 3))]
            if rng.random() < 0.1 and w:
                w = [ord(chr(c).upper()) if c < 0x250 and len(chr(c).upper()) == 1 else c for c in w]
            u += w
            if len(u) >= maxlen:
                break
        return u[:maxlen]

    def braille(self, rng, maxlen=24):
        """cells of a few rules joined by blank cells (dotsIO form)"""
        u = []
        for _ in range(rng.randint(1, 4)):
            _w, d = self.sample_word(rng)
            if u and rng.random() < 0.7:
                u.append(0x8000)
            u += [x for x in d if x & 0x8000]
            if len(u) >= maxlen:
                break
        return u[:maxlen]


_vocab = {}


def table_vocab(exe, tables, timeout=600):
    """{table: Vocab} from DUMP of the real compiled table (translation rules with >= 1 characters)"""
    todo = [t for t in tables if t not in _vocab]
    cases = [common.Case("vocab-%d" % i, [], ["DUMP %s" % tpath(t)], {"table": t}) for i, t in enumerate(todo)]
    if cases:
        common.run_cases(exe, cases, batch=4, timeout=timeout)
    for c in cases:
        v = Vocab()
        _vocab[c.meta["table"]] = v
        if not c.out or c.out[0].startswith("T null"):
            continue
        for rec in c.out[0].split(" | "):
            f = rec.split(" ")
            if f[0] == "R" and len(f) >= 5:
                op = int(f[2])
                if op in (74, 75, 76, 77, 78, 58, 59, 60, 69):     # multipass / swap / grouping: operands are not plain strings
                    continue
                ch = common.unwide(f[3]); dt = common.unwide(f[4])
                if ch and len(ch) <= 16:
                    lst = v.by_op.setdefault(op, [])
                    if len(lst) < 400:
                        lst.append((ch, dt))
            elif f[0] == "C":
                v.chars.append(int(f[1], 16))
            elif f[0] == "D":
                v.cells.append(int(f[1], 16))
    return {t: _vocab[t] for t in tables}
