"""Tie-G for C18: extract the numeric constants of liblouis/metadata.c (match weights,
language-tag weights, extra-language rounding, subtag length limit, selection
thresholds, default unicode-range) and write lean/LouModel/Gen/MetaConsts.lean.

Regex extraction over the C source (python3 stdlib only).  Every constant is looked
for inside the body of the function that owns it; a constant that cannot be found
raises ExtractError, which the check reports as a broken obligation."""
import os, re

HERE = os.path.dirname(os.path.abspath(__file__))
VERIF = os.path.dirname(os.path.dirname(HERE))
OUT = os.path.join(VERIF, "lean", "LouModel", "Gen", "MetaConsts.lean")


class ExtractError(Exception):
    pass


def _repo():
    return os.environ.get("VERIF_REPO", "/repo")


def _strip_comments(src):
    src = re.sub(r"/\*.*?\*/", lambda m: re.sub(r"[^\n]", " ", m.group(0)), src, flags=re.S)
    return re.sub(r"//[^\n]*", "", src)


def function_body(src, name):
    """text of the body of the (first) definition of function `name`"""
    for m in re.finditer(r"\b%s\s*\(" % re.escape(name), src):
        # find the matching ')' then a '{' (definition, not a call/prototype)
        i = m.end()
        depth = 1
        while i < len(src) and depth:
            depth += {"(": 1, ")": -1}.get(src[i], 0)
            i += 1
        j = i
        while j < len(src) and src[j] in " \t\r\n":
            j += 1
        if j >= len(src) or src[j] != "{":
            continue
        # must be at top level: the text before on the same "statement" has no ';' or '=' directly
        k = j + 1
        depth = 1
        while k < len(src) and depth:
            depth += {"{": 1, "}": -1}.get(src[k], 0)
            k += 1
        if depth:
            raise ExtractError("unbalanced braces in %s" % name)
        return src[j:k]
    raise ExtractError("function %s not found" % name)


def _int(body, pat, what):
    m = re.search(pat, body, re.S)
    if not m:
        raise ExtractError("cannot find %s (pattern %r)" % (what, pat))
    return int(m.group(1))


def _static_int(body, name, fn):
    return _int(body, r"static\s+const\s+int\s+%s\s*=\s*(-?\d+)\s*;" % name, "%s in %s" % (name, fn))


def extract(repo=None):
    repo = repo or _repo()
    path = os.path.join(repo, "liblouis", "metadata.c")
    src = _strip_comments(open(path, encoding="utf-8", errors="replace").read())
    c = {}
    mfl = function_body(src, "matchFeatureLists")
    for n in ("POS_MATCH", "NEG_MATCH", "UNDEFINED", "EXTRA",
              "POS_MATCH_FUZZY", "NEG_MATCH_FUZZY", "UNDEFINED_FUZZY", "EXTRA_FUZZY"):
        c[n] = _static_int(mfl, n, "matchFeatureLists")
    # the non-fuzzy/fuzzy selection must assign each weight to its own variable
    for var, strict, fuzzy in (("posMatch", "POS_MATCH", "POS_MATCH_FUZZY"), ("negMatch", "NEG_MATCH", "NEG_MATCH_FUZZY"),
                               ("undefined", "UNDEFINED", "UNDEFINED_FUZZY"), ("extra", "EXTRA", "EXTRA_FUZZY")):
        if not re.search(r"if\s*\(\s*!\s*fuzzy\s*\)\s*\{[^}]*\b%s\s*=\s*%s\s*;[^}]*\}\s*else\s*\{[^}]*\b%s\s*=\s*%s\s*;" %
                         (var, strict, var, fuzzy), mfl, re.S):
            raise ExtractError("matchFeatureLists: %s is not assigned %s / %s" % (var, strict, fuzzy))
    # best += ((extraLanguages + 4) / 5)
    m = re.search(r"best\s*\+=\s*\(\s*\(\s*extraLanguages\s*\+\s*(\d+)\s*\)\s*/\s*(\d+)\s*\)", mfl, re.S)
    if not m:
        raise ExtractError("cannot find the extra-language rounding expression in matchFeatureLists")
    c["EXTRA_LANG_ADD"], c["EXTRA_LANG_DIV"] = int(m.group(1)), int(m.group(2))
    # ucs2-for-ucs4: best = posMatch; best--;
    if not re.search(r"best\s*=\s*posMatch\s*;\s*best\s*--\s*;", mfl, re.S):
        raise ExtractError("cannot find the ucs2/ucs4 penalty (best = posMatch; best--;)")
    c["UCS2_FOR_UCS4_PENALTY"] = 1
    m = re.search(r'strcasecmp\s*\(\s*v1\s*,\s*"(\w+)"\s*\)\s*==\s*0\s*&&\s*strcasecmp\s*\(\s*v\s*,\s*"(\w+)"\s*\)\s*==\s*0', mfl, re.S)
    if not m:
        raise ExtractError("cannot find the ucs4/ucs2 special case in matchFeatureLists")
    c["UR_QUERY_SPECIAL"], c["UR_TABLE_SPECIAL"] = m.group(1), m.group(2)
    # isLanguageTag: the whole key must be one of the three names (fix of C18-F3), not a prefix
    ilt = function_body(src, "isLanguageTag")
    if not re.search(r"size_t\s+n\s*=\s*strnlen\s*\(\s*key\s*,\s*len\s*\)\s*;", ilt):
        raise ExtractError("isLanguageTag: key length is not taken with strnlen(key, len)")
    names = []
    for m in re.finditer(r'n\s*==\s*strlen\s*\(\s*"(\w+)"\s*\)\s*&&\s*strncasecmp\s*\(\s*"(\w+)"\s*,\s*key\s*,\s*n\s*\)\s*==\s*0', ilt):
        if m.group(1) != m.group(2):
            raise ExtractError("isLanguageTag: length of %r tested with name %r" % (m.group(2), m.group(1)))
        names.append(m.group(1))
    if names != ["language", "region", "locale"]:
        raise ExtractError("isLanguageTag: expected exact matches of language, region, locale; found %r" % names)
    c["LANG_KEYS"] = names
    mlt = function_body(src, "matchLanguageTags")
    c["LANG_POS_MATCH"] = _static_int(mlt, "POS_MATCH", "matchLanguageTags")
    c["LANG_EXTRA"] = _static_int(mlt, "EXTRA", "matchLanguageTags")
    plt = function_body(src, "parseLanguageTag")
    a = _int(plt, r"for\s*\(\s*;\s*len\s*<=\s*(\d+)\s*;", "subtag scan bound in parseLanguageTag")
    b = _int(plt, r"len\s*<\s*1\s*\|\|\s*len\s*>\s*(\d+)", "subtag length limit in parseLanguageTag")
    if a != b:
        raise ExtractError("parseLanguageTag: scan bound %d and length limit %d differ" % (a, b))
    c["SUBTAG_MAX"] = b
    ft = function_body(src, "lou_findTable")
    c["FIND_INITIAL_BEST"] = _int(ft, r"int\s+bestQuotient\s*=\s*(-?\d+)\s*;", "initial bestQuotient in lou_findTable")
    if not re.search(r"if\s*\(\s*q\s*>\s*bestQuotient\s*\)", ft):
        raise ExtractError("lou_findTable: selection is not `q > bestQuotient`")
    fts = function_body(src, "lou_findTables")
    c["FINDS_THRESHOLD"] = _int(fts, r"if\s*\(\s*quotient\s*>\s*(-?\d+)\s*\)", "threshold in lou_findTables")
    at = function_body(src, "analyzeTable")
    m = re.search(r'feat_new\s*\(\s*"unicode-range"\s*,\s*"(\w+)"', at)
    if not m:
        raise ExtractError("cannot find the default unicode-range of a table in analyzeTable")
    c["TABLE_DEFAULT_UR"] = m.group(1)
    pq = function_body(src, "parseQuery")
    if not re.search(r'sprintf\s*\(\s*value\s*,\s*"ucs%ld"\s*,\s*CHARSIZE\s*\)', pq):
        raise ExtractError("cannot find the default unicode-range of a query (ucs%ld, CHARSIZE) in parseQuery")
    # CHARSIZE = sizeof(widechar); widechar from the generated liblouis.h; MAXSTRING from internal.h
    ih = _strip_comments(open(os.path.join(repo, "liblouis", "internal.h"), encoding="utf-8", errors="replace").read())
    c["MAXSTRING"] = _int(ih, r"#\s*define\s+MAXSTRING\s+(\d+)", "MAXSTRING in internal.h")
    if not re.search(r"#\s*define\s+CHARSIZE\s+sizeof\s*\(\s*widechar\s*\)", ih):
        raise ExtractError("CHARSIZE is not sizeof(widechar) in internal.h")
    lh = None
    for fn in ("liblouis.h", "liblouis.h.in"):
        p = os.path.join(repo, "liblouis", fn)
        if os.path.exists(p):
            lh = _strip_comments(open(p, encoding="utf-8", errors="replace").read())
            break
    if lh is None:
        raise ExtractError("liblouis.h not found")
    m = re.search(r"typedef\s+([\w\s]+?)\s+widechar\s*;", lh)
    if not m:
        raise ExtractError("typedef of widechar not found in liblouis.h")
    ty = " ".join(m.group(1).split())
    sizes = {"unsigned short int": 2, "unsigned short": 2, "unsigned int": 4, "unsigned": 4}
    if ty not in sizes:
        raise ExtractError("unknown widechar type %r" % ty)
    c["CHARSIZE"] = sizes[ty]
    return c


def _bytes(s):
    return "[" + ", ".join(str(b) for b in s.encode("ascii")) + "]"


def render(c):
    L = []
    L.append("/-")
    L.append("  GENERATED by tools/lv/extract_meta.py from liblouis/metadata.c, internal.h, liblouis.h.")
    L.append("  Do not edit: `./check` regenerates this file and the proofs in LouProofs/C18.lean")
    L.append("  (`weight_order` and friends) are re-checked against whatever the C source says.")
    L.append("-/")
    L.append("namespace Lou.Gen.MetaConsts")
    L.append("")
    L.append("/-! matchFeatureLists (strict and fuzzy weights) -/")
    for n in ("POS_MATCH", "NEG_MATCH", "UNDEFINED", "EXTRA",
              "POS_MATCH_FUZZY", "NEG_MATCH_FUZZY", "UNDEFINED_FUZZY", "EXTRA_FUZZY"):
        L.append("def %s : Int := %d" % (n, c[n]))
    L.append("/-- `best += ((extraLanguages + ADD) / DIV)` (C division, truncating) -/")
    L.append("def EXTRA_LANG_ADD : Int := %d" % c["EXTRA_LANG_ADD"])
    L.append("def EXTRA_LANG_DIV : Int := %d" % c["EXTRA_LANG_DIV"])
    L.append("/-- `best = posMatch; best--;` when the table says %s and the query %s -/" %
             (c["UR_TABLE_SPECIAL"], c["UR_QUERY_SPECIAL"]))
    L.append("def UCS2_FOR_UCS4_PENALTY : Int := %d" % c["UCS2_FOR_UCS4_PENALTY"])
    L.append("def UR_QUERY_SPECIAL : List Nat := %s  -- \"%s\"" % (_bytes(c["UR_QUERY_SPECIAL"]), c["UR_QUERY_SPECIAL"]))
    L.append("def UR_TABLE_SPECIAL : List Nat := %s  -- \"%s\"" % (_bytes(c["UR_TABLE_SPECIAL"]), c["UR_TABLE_SPECIAL"]))
    L.append("")
    L.append("/-! matchLanguageTags -/")
    L.append("def LANG_POS_MATCH : Int := %d" % c["LANG_POS_MATCH"])
    L.append("def LANG_EXTRA : Int := %d" % c["LANG_EXTRA"])
    L.append("/-- isLanguageTag: the keys whose values are language tags (whole key, case-insensitive) -/")
    L.append("def LANG_KEYS : List (List Nat) := [%s]  -- %s" % (", ".join(_bytes(n) for n in c["LANG_KEYS"]), ", ".join(c["LANG_KEYS"])))
    L.append("/-- parseLanguageTag: a subtag has 1..SUBTAG_MAX characters -/")
    L.append("def SUBTAG_MAX : Nat := %d" % c["SUBTAG_MAX"])
    L.append("")
    L.append("/-! selection -/")
    L.append("/-- lou_findTable: `int bestQuotient = …; if (q > bestQuotient)` -/")
    L.append("def FIND_INITIAL_BEST : Int := %d" % c["FIND_INITIAL_BEST"])
    L.append("/-- lou_findTables: `if (quotient > …)` -/")
    L.append("def FINDS_THRESHOLD : Int := %d" % c["FINDS_THRESHOLD"])
    L.append("")
    L.append("/-! defaults -/")
    L.append("def MAXSTRING : Nat := %d" % c["MAXSTRING"])
    L.append("/-- sizeof(widechar) -/")
    L.append("def CHARSIZE : Nat := %d" % c["CHARSIZE"])
    q = "ucs%d" % c["CHARSIZE"]
    L.append("/-- default unicode-range of a query: sprintf(\"ucs%%ld\", CHARSIZE) = \"%s\" -/" % q)
    L.append("def QUERY_DEFAULT_UR : List Nat := %s" % _bytes(q))
    L.append("/-- default unicode-range of a table: \"%s\" -/" % c["TABLE_DEFAULT_UR"])
    L.append("def TABLE_DEFAULT_UR : List Nat := %s" % _bytes(c["TABLE_DEFAULT_UR"]))
    L.append("")
    L.append("end Lou.Gen.MetaConsts")
    return "\n".join(L) + "\n"


def generate(repo=None, out=None):
    """(re)write Gen/MetaConsts.lean; touches the file only when its content changes"""
    out = out or OUT
    text = render(extract(repo))
    old = None
    if os.path.exists(out):
        old = open(out).read()
    if old != text:
        os.makedirs(os.path.dirname(out), exist_ok=True)
        with open(out + ".tmp", "w") as f:
            f.write(text)
        os.replace(out + ".tmp", out)
        return True
    return False


if __name__ == "__main__":
    print("rewritten" if generate() else "unchanged")
