"""./check Cnn --replay <path>: re-run a recorded violation against /repo's current working tree.

A replay file is what a check wrote next to its VIOLATION line: {"property", "signature", "what", "replay": {...}}.
The replay object comes in a few shapes; all but the last are harness scripts:
  script / script_a+script_b / harness_script / fresh_script   lines for harness/lvh (built from /repo, hooks on, ASan+UBSan)
  files / tables / good / root                                  files to write into the scratch directory first
  env                                                           extra environment (ASAN_OPTIONS ...)
  result / results / got / fresh_result                         what the implementation printed when the check ran
A file without a replay object ({"no_failing_input_found": true, "broken": [...]}) names the theorems or correspondences
that no longer check; replaying it re-runs the property's quick check.

Exit status: 1 when the recorded behaviour shows again (same output lines, or a sanitizer fault), 0 when the
implementation now answers differently (the violation does not reproduce on this tree), 2 on usage errors."""
import json, os, sys, tempfile, shutil, binascii, importlib
from . import common


def _write_files(d, files):
    for name, content in (files or {}).items():
        if not isinstance(content, str) or name in ("others",):
            continue
        p = os.path.join(d, name)
        os.makedirs(os.path.dirname(p) or d, exist_ok=True)
        try:
            data = binascii.unhexlify(content) if (len(content) % 2 == 0 and content and all(c in "0123456789abcdefABCDEF" for c in content[:64])
                                                    and all(c in "0123456789abcdefABCDEF" for c in content)) else content.encode("utf-8", "surrogatepass")
        except Exception:
            data = content.encode("utf-8", "surrogatepass")
        with open(p, "wb") as f:
            f.write(data)


def _run(exe, lines, files, env):
    d = tempfile.mkdtemp(prefix="replay-", dir=common.scratch_root())
    try:
        for fs in files:
            _write_files(d, fs)
        return common.run_harness(exe, lines, d, timeout=300, env=env)
    finally:
        shutil.rmtree(d, ignore_errors=True)


def replay(prop, path):
    try:
        r = json.load(open(path))
    except Exception as e:
        print("cannot read replay file %s: %s" % (path, e))
        return 2
    print("property   %s" % r.get("property", prop))
    if r.get("signature"):
        print("signature  %s" % r["signature"])
    if r.get("what"):
        print("recorded   %s" % r["what"][:1200])
    rp = r.get("replay")
    if not isinstance(rp, dict):
        # nothing to run but the check itself: name what no longer checks, then run the quick tier
        for b in r.get("broken", []):
            print("no longer checks: %s" % b.get("obligation", "")[:300])
        print("re-running the quick check of %s (no failing input was recorded)" % prop)
        return importlib.import_module("lv.props." + prop).run("quick")
    try:
        exe = common.build_harness()
    except common.BuildError as e:
        print("harness does not build from /repo's working tree:\n" + str(e)[-1500:])
        return 1
    files = [rp.get(k) for k in ("files", "tables", "good") if isinstance(rp.get(k), dict)]
    env = rp.get("env") if isinstance(rp.get("env"), dict) else None
    scripts = []
    for k in ("script", "harness_script", "script_a", "script_b", "fresh_script"):
        v = rp.get(k)
        if isinstance(v, list) and v and all(isinstance(x, str) for x in v):
            scripts.append((k, v))
    if not scripts:
        print("this replay holds no harness script (keys: %s); re-running the quick check of %s" % (sorted(rp), prop))
        return importlib.import_module("lv.props." + prop).run("quick")
    recorded = []
    for k in ("result", "results", "got", "fresh_result"):
        v = rp.get(k)
        if isinstance(v, str):
            recorded.append(v)
        elif isinstance(v, list):
            recorded += [x for x in v if isinstance(x, str)]
    reproduced = False
    for name, lines in scripts:
        print("---- %s (%d lines)" % (name, len(lines)))
        res = _run(exe, lines, files, env)
        # one output line per script line (fewer when the process died on the way)
        for i, ln in enumerate(lines):
            out = res.lines[i] if i < len(res.lines) else "(no answer: the process ended before this line)"
            if ln.startswith(("TBL ", "HOOK ", "LOGDUMP ")):
                continue
            print("  %s\n    -> %s" % (ln[:160], out[:600]))
        if res.fault:
            print("  FAULT %s in %s" % (res.fault.get("kind"), res.fault.get("frame")))
            print("  " + (getattr(res, "stderr", "") or "")[-1200:].replace("\n", "\n  "))
            reproduced = True
        key = lambda s: s.split(" | ")[0].strip()
        if recorded and res.lines and any(key(o) == key(x) for o in res.lines for x in recorded if key(x)):
            print("  the implementation prints the recorded result again")
            reproduced = True
    print("REPRODUCED" if reproduced else "NOT REPRODUCED on this tree (the implementation now answers differently, or the violation "
          "is a relation between several runs: see the recorded description above)")
    return 1 if reproduced else 0
