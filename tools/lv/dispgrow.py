"""a cached list whose DISPLAY table grows through run-time rules (shared by C14 and C15)"""
from . import common, gen_table as G


def display_growth(v, exe, tier, prop, dist):
    # ---------------- the DISPLAY table grows at run time too: enough `display` rules and single-cell definitions to
    # exhaust its arena several times (18000 bytes, 8 per mapping) while the list is cached; every mapping must answer,
    # other cached lists must be untouched, lou_free must release everything
    nmap = 1300 if tier == "quick" else 6000
    dg_setup = ["TBL dg.ctb %s" % common.hexbytes("space \\s 0\nsign a 1\n"), "TBL other.ctb %s" % common.hexbytes("space \\s 0\nsign b 12\n")]
    dg_ops = ["C2D other.ctb 0 %s" % common.wide([0x62]), "C2D dg.ctb 0 %s" % common.wide([0x61])]
    for k in range(nmap):
        c = 0x3400 + k
        dg_ops.append("ADD dg.ctb %s" % common.hexbytes("display \\x%04x %s" % (c, G.dots_str(1 + (k % 255)))))
        if k % 97 == 0:
            dg_ops.append("ADD dg.ctb %s" % common.hexbytes("sign \\x%04x %s" % (0x5000 + k, G.dots_str(256 + k % 3000))))
    # characters that share one bucket of the character-to-cell map (equal modulo 1123), added one at a time: every one
    # of them has to stay reachable when the next is linked in (seeded change C15-G cut the chain behind its second entry)
    coll = [0x6000 + 1123 * j for j in range(6)]
    for j, c in enumerate(coll):
        dg_ops.append("ADD dg.ctb %s" % common.hexbytes("display \\x%04x %s" % (c, G.dots_str(0x100 | (1 + j)))))
    dg_ops.append("C2D dg.ctb 0 %s" % common.wide(coll))
    dg_ops.append("D2C dg.ctb 0 %s" % common.wide([0x8000 | 0x100 | (1 + j) for j in range(len(coll))]))
    coll_at = len(dg_ops) - 2
    probe = [0x3400, 0x3400 + nmap // 2, 0x3400 + nmap - 1, 0x61]
    dg_ops += ["C2D dg.ctb 0 %s" % common.wide(probe), "C2D other.ctb 0 %s" % common.wide([0x62]), "FWD dg.ctb 0 8 - 12 %s - -" % common.wide([0x61, 0x61]),
               "FREE", "C2D dg.ctb 0 %s" % common.wide(probe)]
    cdg = common.Case(prop.lower() + "-dispgrow", dg_setup, dg_ops, {})
    common.run_cases(exe, [cdg], batch=1, timeout=300, leak=True)
    dist["display_mappings_added_at_run_time"] = nmap
    if cdg.fault:
        i = cdg.fault.get("op_index", 0)
        v.violation("%s:fault:display-growth:%s:%s" % (prop, cdg.fault["kind"], cdg.fault["frame"]),
                    "fault while / after the display table of a cached list grows through run-time rules: %s in %s (operation %d: %s)" % (
                        cdg.fault["kind"], cdg.fault["frame"], i, cdg.ops[i][:80] if i < len(cdg.ops) else "?"),
                    {"script": cdg.setup + cdg.ops[: i + 1], "stderr_tail": cdg.fault.get("stderr_tail", "")[-800:]})
    elif len(cdg.out) == len(cdg.ops):
        v.cov["evaluations"] += len(cdg.ops)
        rejected = [o for op, o in zip(cdg.ops, cdg.out) if op.startswith("ADD") and not o.startswith("D 1")]
        want = [0x8000 | (1 + (k % 255)) for k in (0, nmap // 2, nmap - 1)] + [0x8001]
        got = common.unwide(cdg.out[-5].split(" ")[2]) if cdg.out[-5].startswith("V 1 ") else None
        after_free = common.unwide(cdg.out[-1].split(" ")[2]) if cdg.out[-1].startswith("V 1 ") else None
        other = cdg.out[-4] == cdg.out[0]
        if rejected or got != want or not other:
            v.violation(prop + ":display-growth:lost", "after %d run-time display mappings: %d rejected, lou_charToDots of the first/middle/last/base character = %s "
                        "(expected %s), other list unchanged: %s" % (nmap, len(rejected), got, want, other),
                        {"script": cdg.setup + ["… %d ADD display rules …" % nmap] + cdg.ops[-5:], "results": cdg.out[-5:]})
        gc = common.unwide(cdg.out[coll_at].split(" ")[2]) if cdg.out[coll_at].startswith("V 1 ") else None
        gd = common.unwide(cdg.out[coll_at + 1].split(" ")[2]) if cdg.out[coll_at + 1].startswith("V 1 ") else None
        if gc != [0x8000 | 0x100 | (1 + j) for j in range(len(coll))] or gd != coll:
            v.violation(prop + ":display-growth:colliding", "display mappings of %d characters that share a bucket, added one at a time: "
                        "lou_charToDots gives %s, lou_dotsToChar gives %s" % (len(coll), common.wide(gc or [])[:60], common.wide(gd or [])[:60]),
                        {"script": cdg.setup + [o for o in cdg.ops[:coll_at + 2] if "x6" in o or not o.startswith("ADD")][-10:], "results": cdg.out[coll_at:coll_at + 2]})
        if after_free is not None and after_free[:3] == want[:3]:
            v.violation(prop + ":display-growth:survives-free", "run-time display mappings are still there after lou_free()", {"script": cdg.ops[-2:], "results": cdg.out[-2:]})

