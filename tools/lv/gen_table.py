"""G-table: grammar-based generator of small liblouis tables (DESIGN.md Appendix A).

A generated table is a `Tbl` with the entries as structured records (so that the
checks know which characters / cells / rules exist) and a `text()` rendering.
All random choices come from the rng handed in."""
import random

HASHNUM = 1123

# characters: ASCII letters plus non-ASCII ones chosen so that some pairs collide in
# the character hash (c mod 1123) and some two-character prefixes collide in the string hash
BASE_CHARS = [ord(c) for c in "abcdefghijklmnop"]
COLLIDE = [0x0061 + HASHNUM, 0x0062 + HASHNUM, 0x0061 + 2 * HASHNUM, 0x0100, 0x0100 + HASHNUM, 0x0564]
UPPER = {ord(c): ord(c.upper()) for c in "abcdefgh"}
DIGITS = [ord(c) for c in "0123456789"]
PUNCT = [ord(c) for c in ".,;:!?-'"]


def dots_str(cell):
    """cell (int bitmask incl. no LOU_DOTS flag) -> '125'; 0 -> '0'"""
    if cell == 0:
        return "0"
    s = ""
    for i in range(15):
        if cell & (1 << i):
            s += "123456789abcdef"[i]
    return s


def cells_str(cells):
    return "-".join(dots_str(c) for c in cells)


def char_str(c):
    if 0x21 <= c <= 0x7e and chr(c) not in "\\\"#":
        return chr(c)
    return "\\x%04x" % c


def chars_str(cs):
    return "".join(char_str(c) for c in cs)


class Rule:
    def __init__(self, opcode, chars=None, cells=None, prefix="", raw=None, test=None, action=None):
        self.opcode, self.chars, self.cells, self.prefix = opcode, chars, cells, prefix
        self.raw, self.test, self.action = raw, test, action

    def text(self):
        p = (self.prefix + " ") if self.prefix else ""
        if self.raw is not None:
            return p + self.raw
        if self.test is not None:
            return "%s%s %s %s" % (p, self.opcode, self.test, self.action)
        d = "=" if self.cells is None else cells_str(self.cells)
        return "%s%s %s %s" % (p, self.opcode, chars_str(self.chars), d)


class Tbl:
    def __init__(self):
        self.rules = []
        self.charcell = {}     # char -> cell (single cell definitions)
        self.attrs = {}        # char -> opcode name
        self.upper = {}        # lower -> upper
        self.header = []

    def text(self):
        return "\n".join([r.text() for r in self.rules]) + "\n"

    def chars(self):
        return sorted(self.charcell)

    def cells(self):
        return sorted(set(self.charcell.values()))


def gen_alphabet(rng, t, nletters=None, eight=False, collide=True, upper=True, digits=True, punct=True):
    t.rules.append(Rule("space", [0x20], [0]))
    t.charcell[0x20] = 0
    t.attrs[0x20] = "space"
    pool = list(BASE_CHARS)
    if collide:
        pool += COLLIDE
    rng.shuffle(pool)
    n = nletters or rng.randint(3, 8)
    letters = sorted(pool[:n])
    maxcell = 255 if eight else 63
    used = {0}
    items = []
    for c in letters:
        cell = rng.randint(1, maxcell)
        while cell in used:
            cell = rng.randint(1, maxcell)
        used.add(cell)
        items.append((rng.choice(["letter", "lowercase", "lowercase", "lowercase"]), c, cell))
    if digits:
        for c in rng.sample(DIGITS, rng.randint(0, 3)):
            cell = rng.randint(1, maxcell)
            while cell in used:
                cell = rng.randint(1, maxcell)
            used.add(cell)
            items.append((rng.choice(["digit", "digit", "litdigit"]), c, cell))
    if punct:
        for c in rng.sample(PUNCT, rng.randint(0, 3)):
            cell = rng.randint(1, maxcell)
            while cell in used:
                cell = rng.randint(1, maxcell)
            used.add(cell)
            items.append((rng.choice(["punctuation", "sign", "math"]), c, cell))
    rng.shuffle(items)
    for op, c, cell in items:
        t.rules.append(Rule(op, [c], [cell]))
        t.charcell[c] = cell
        t.attrs[c] = op
    if upper:
        for lo, up in UPPER.items():
            if lo in t.charcell and t.attrs[lo] == "lowercase" and rng.random() < 0.5:
                cell = rng.randint(1, maxcell)
                while cell in used:
                    cell = rng.randint(1, maxcell)
                used.add(cell)
                t.rules.append(Rule("uppercase", [up], [cell]))
                t.charcell[up] = cell
                t.attrs[up] = "uppercase"
                t.upper[lo] = up
    return t


WORD_OPS = ["always", "always", "always", "word", "partword", "begword", "midword", "endword", "begmidword",
            "midendword", "sufword", "prfword", "lowword"]


def rand_string(rng, t, earlier, maxlen=4):
    letters = [c for c in t.chars() if t.attrs.get(c) in ("letter", "lowercase", "uppercase")]
    allc = [c for c in t.chars() if c != 0x20]
    r = rng.random()
    if earlier and r < 0.2:
        s = list(rng.choice(earlier))                      # duplicate string
    elif earlier and r < 0.35:
        s = list(rng.choice(earlier))
        s = s[:-1] if (len(s) > 1 and rng.random() < 0.5) else (s + [rng.choice(allc)])[:maxlen]   # prefix / extension
    else:
        s = [rng.choice(letters if (letters and rng.random() < 0.85) else allc) for _ in range(rng.randint(1, maxlen))]
    return s


def gen_translation_rules(rng, t, n=None, allow_undefined=False, allow_equals=True, ops=None):
    earlier = []
    n = rng.randint(0, 6) if n is None else n
    maxcell = 63
    for _ in range(n):
        op = rng.choice(ops or WORD_OPS)
        s = rand_string(rng, t, earlier)
        if allow_undefined and rng.random() < 0.08:
            s[rng.randrange(len(s))] = 0x7a  # 'z' is never defined by gen_alphabet
        earlier.append(tuple(s))
        if allow_equals and rng.random() < 0.15 and all(c in t.charcell and t.attrs.get(c) != "litdigit" for c in s):
            cells = None
        else:
            cells = [rng.randint(1, maxcell) for _ in range(rng.randint(1, 3))]
        prefix = rng.choice(["", "", "", "", "noback", "nofor"])
        t.rules.append(Rule(op, s, cells, prefix))
    return t


def gen_indicators(rng, t, numsign=True, capsletter=True):
    if numsign and rng.random() < 0.5 and any(t.attrs.get(c) in ("digit", "litdigit") for c in t.charcell):
        t.rules.append(Rule(None, raw="numsign %s" % dots_str(rng.choice([60, 58, 15]))))
    if capsletter and t.upper and rng.random() < 0.6:
        t.rules.append(Rule(None, raw="capsletter %s" % dots_str(rng.choice([32, 40, 48]))))
    return t


# ---------------------------------------------------------------- multipass

def lit_chars(rng, t, n):
    cs = [c for c in t.chars() if 0x21 <= c <= 0x7e and chr(c) not in "\"\\"]
    if not cs:
        cs = [0x61]
    return [rng.choice(cs) for _ in range(n)]


def lit_cells(rng, t, n):
    cs = [c for c in t.cells() if c] or [1]
    return [rng.choice(cs) for _ in range(n)]


def gen_pass_rule(rng, t, stage, direction, literal_only=True, biased_nonconsuming=False):
    """one correct/context/pass2-4 rule.  direction 'noback' = forward rule, 'nofor' = backward rule.
    Side of test/action: forward correct chars->chars, context chars->dots, passN dots->dots;
    backward: correct chars->chars, context dots->chars, passN dots->dots."""
    fwd = direction == "noback"
    if stage == "correct":
        test_chars, act_chars = True, True
    elif stage == "context":
        test_chars, act_chars = (True, False) if fwd else (False, True)
    else:
        test_chars, act_chars = False, False

    def lit(chars_side, n):
        if chars_side:
            return '"%s"' % "".join(chr(c) for c in lit_chars(rng, t, n))
        return "@" + cells_str(lit_cells(rng, t, n))

    parts = []
    nb = rng.randint(0, 1)           # items before the bracket
    ni = rng.randint(0, 2)           # items inside
    na = rng.randint(0, 1)           # items after
    brackets = rng.random() < 0.6
    if not brackets:
        ni = max(ni, 1)
        nb = na = 0
    if nb + ni + na == 0:
        ni = 1
    r = rng.random()
    if biased_nonconsuming and r < 0.35:
        # zero-width brackets / look-back inside or after brackets / self-replacement
        kind = rng.choice(["zero", "lookback_in", "lookback_after", "self", "lookback_before", "lookback_zero", "lookback_zero"])
        if kind == "lookback_zero":
            # look back, open and close the brackets THERE (in front of the tried position), then match forward across it:
            # the replaced range ends before the match starts (seeded change C03-F)
            test = "_%d[]" % rng.randint(1, 2) + lit(test_chars, rng.randint(1, 3))
            if rng.random() < 0.4:
                test = "_%d[" % rng.randint(1, 2) + lit(test_chars, 1) + "]" + lit(test_chars, rng.randint(1, 2))
        elif kind == "zero":
            test = "[]" + lit(test_chars, rng.randint(1, 2))
        elif kind == "lookback_in":
            test = lit(test_chars, 1) + "[_1" + lit(test_chars, 1) + "]"
            if rng.random() < 0.5:
                test = "[_1]" + lit(test_chars, 1)
        elif kind == "lookback_after":
            test = "[" + lit(test_chars, rng.randint(1, 2)) + "]_%d" % rng.randint(1, 3)
        elif kind == "lookback_before":
            test = "_%d[" % rng.randint(1, 2) + lit(test_chars, 1) + "]"
        else:
            x = lit(test_chars, rng.randint(1, 2))
            action = x if (test_chars == act_chars) else rng.choice(["*", "?"])
            return Rule(stage, prefix=direction, test=x, action=action)
        action = rng.choice(["?", "*", lit(act_chars, 1), lit(act_chars, 2)])
        return Rule(stage, prefix=direction, test=test, action=action)
    items = []
    if rng.random() < 0.15:
        items.append("`")
    for _ in range(nb):
        # (now and then a long context in front of the brackets: what a `*` action moves then is long too - F38)
        items.append(lit(test_chars, rng.choice([1, 1, 2, 2, 2, 4, 6])))
    if brackets:
        items.append("[")
    for _ in range(ni):
        if not literal_only and rng.random() < 0.25:
            items.append(rng.choice(["$l", "$a", "$d", "$s", "$l1-2", "!$s"]))
        else:
            items.append(lit(test_chars, rng.randint(1, 2)))
    if brackets:
        items.append("]")
    for _ in range(na):
        items.append(lit(test_chars, rng.randint(1, 2)))
    if rng.random() < 0.1:
        items.append("~")
    test = "".join(items)
    ar = rng.random()
    if ar < 0.2:
        action = "?"
    elif ar < 0.35 or (brackets and nb and ar < 0.6 and "-" in items[1 if items[0] == "`" else 0]):
        action = "*"                   # (more often behind a long context: the copy then moves a long block)
    elif ar < 0.45 and brackets:
        action = lit(act_chars, 1) + "*"
    else:
        action = lit(act_chars, rng.randint(1, 3))
    return Rule(stage, prefix=direction, test=test, action=action)


def gen_passes(rng, t, per_stage=(0, 3), stages=("correct", "context", "pass2", "pass3", "pass4"),
               directions=("noback", "nofor"), literal_only=True, biased_nonconsuming=False):
    for st in stages:
        for d in directions:
            for _ in range(rng.randint(*per_stage)):
                t.rules.append(gen_pass_rule(rng, t, st, d, literal_only, biased_nonconsuming))
    return t


def gen_table(rng, kind="f0", **kw):
    """kinds: 'onetoone' (definitions only), 'f0' (+ translation rules, numsign, capsletter),
    'multipass' (one-to-one main pass + multipass rules), 'mixed'"""
    t = Tbl()
    if kind == "onetoone":
        gen_alphabet(rng, t, nletters=kw.get("nletters"), eight=kw.get("eight", False), upper=kw.get("upper", True))
    elif kind == "f0":
        gen_alphabet(rng, t)
        gen_indicators(rng, t)
        gen_translation_rules(rng, t, allow_undefined=kw.get("allow_undefined", False))
    elif kind == "multipass":
        gen_alphabet(rng, t, upper=False)
        gen_passes(rng, t, per_stage=kw.get("per_stage", (0, 3)), literal_only=kw.get("literal_only", True),
                   biased_nonconsuming=kw.get("biased", False))
    elif kind == "composite":
        # a main pass with translation rules (fragment F0) between correct and pass2-4 stages, no context rules: the
        # fragment whose WHOLE call the model computes (LouModel/Engine.lean)
        caps = bool(kw.get("caps"))
        gen_alphabet(rng, t, upper=caps)
        if caps:
            # (capital indicators make the emphasis machinery run over the text the correct pass produced; such tables
            # are outside the whole-call model and are there for the sanitizers - seeded change C01-C)
            t.rules.append(Rule(None, raw="capsletter %s" % dots_str(rng.choice([32, 40, 48]))))
            if rng.random() < 0.5:
                t.rules.append(Rule(None, raw="begcapsword %s-%s" % (dots_str(32), dots_str(32))))
        gen_translation_rules(rng, t)
        gen_passes(rng, t, per_stage=kw.get("per_stage", (0, 3)), stages=("correct", "pass2", "pass3", "pass4"),
                   literal_only=True, biased_nonconsuming=kw.get("biased", False))
        lows_ = [c for c in t.chars() if 0x61 <= c <= 0x7a]
        if len(lows_) >= 3 and rng.random() < 0.3:
            # a swap class applied to a RUN of characters / cells: every swapped element keeps its own position in the maps
            # (seeded change C07-H gave the whole run the position of its first element)
            src = rng.sample(lows_, 3)
            if rng.random() < 0.5:
                t.rules.append(Rule(None, raw="swapcc swr %s %s" % (chars_str(src), chars_str(src[1:] + src[:1]))))
                t.rules.append(Rule(None, raw="noback correct [%%swr%s] %%swr" % rng.choice(["1-3", ".", "2-4", "2"])))
            else:
                cl = [t.charcell[c] for c in src]
                if all(cl) and len(set(cl)) == 3:
                    t.rules.append(Rule(None, raw="swapdd swr %s %s" % (",".join(dots_str(x) for x in cl), ",".join(dots_str(x) for x in cl[1:] + cl[:1]))))
                    t.rules.append(Rule(None, raw="noback pass2 [%%swr%s] %%swr" % rng.choice(["1-3", ".", "2-4", "2"])))
        if kw.get("context"):
            # context rules inside the main pass, both directions (LouModel/ForwardCtx.lean, BackwardCtx.lean)
            gen_passes(rng, t, per_stage=(1, 3), stages=("context",), directions=("noback", "nofor"), literal_only=True,
                       biased_nonconsuming=kw.get("biased", False))
    elif kind == "extras":
        gen_alphabet(rng, t, upper=False)
        gen_translation_rules(rng, t)
        gen_extras(rng, t, f6=kw.get("f6", 0.0), hyph=kw.get("hyph"))
        gen_passes(rng, t, per_stage=(0, 1), literal_only=False)
    else:
        gen_alphabet(rng, t)
        gen_indicators(rng, t)
        gen_translation_rules(rng, t)
        gen_passes(rng, t, per_stage=(0, 2), literal_only=False, biased_nonconsuming=kw.get("biased", False))
    return t


# ---------------------------------------------------------------- further kinds of stored references (C12 / C15)

MATCH_PATTERNS = ["-", "-", "%a", "%[^_]", "%[al]", "%[^_.]", "a|b", "[ab]", "(a|b)c", "%a*", "%[^_]?b", "!a", "%[#]+"]


def gen_extras(rng, t, f6=0.0, hyph=None):
    """append rules that store the other kinds of references a table image holds: base characters
    (`linked` lists, case folding), `context` rules with a literal head in upper case (re-filed by
    finalizeTable) next to ordinary rules of the same bucket, grouping and swap names referenced from
    pass programs (with probability f6: an undefined name AFTER a valid one, DESIGN F6 - a compile error since the
    repair 8ca2e784, so 0 by default; the witness tables of C12 still try it), match
    patterns, indicator and emphasis slots, display rules, optionally an included hyphenation
    dictionary `hyph` (file name).  Returns the list of appended Rule objects."""
    out = []
    lows = [c for c in t.charcell if t.attrs.get(c) in ("lowercase", "letter") and 0x61 <= c <= 0x7a]
    cells = [c for c in t.cells() if c] or [1]

    def dots(n=None):
        return cells_str([rng.choice(cells) for _ in range(n or rng.randint(1, 2))])

    ups = []
    for c in lows:
        if rng.random() < 0.6 and (c - 32) not in t.charcell:
            out.append(Rule(None, raw="base uppercase %s %s" % (chr(c - 32), chr(c))))
            ups.append(c - 32)
    grp = []
    for _ in range(rng.randint(0, 4)):
        if len(lows) < 2:
            break
        s = [rng.choice(lows) for _ in range(rng.randint(2, 4))]
        u = [x - 32 if ((x - 32) in ups and rng.random() < 0.7) else x for x in s]
        grp.append(Rule(None, raw='noback context "%s" @%s' % ("".join(map(chr, u)), dots())))
        for _ in range(rng.randint(0, 2)):
            grp.append(Rule(rng.choice(["always", "begword", "word", "always"]), list(s), [rng.choice(cells)], "noback"))
    rng.shuffle(grp)
    out += grp
    # indicator / emphasis slots
    slots = ["letsign 56", "numsign 3456", "nonumsign 56", "nocontractsign 5", "begcomp 456-346", "endcomp 456-156",
             "undefined 3456", "capsletter 6", "begcapsword 6-6", "endcapsword 6-3"]
    for sl in slots:
        if rng.random() < 0.3:
            out.append(Rule(None, raw=sl))
    if rng.random() < 0.4:
        for i, n in enumerate(["italic", "underline", "bold"][:rng.randint(1, 3)]):
            out.append(Rule(None, raw="emphclass " + n))
            for op in rng.sample(["emphletter", "begemphword", "endemphword", "begemphphrase"], rng.randint(1, 3)):
                out.append(Rule(None, raw="%s %s %s" % (op, n, dots())))
    # grouping / swap names and pass programs referring to them
    names = []
    if rng.random() < 0.6:
        out.append(Rule(None, raw="grouping paren () 126,345"))
        names.append(("g", "paren"))
        if rng.random() < 0.4:
            out.append(Rule(None, raw="grouping brace {} 246,135"))
            names.append(("g", "brace"))
    if lows and rng.random() < 0.6:
        k = min(len(lows), 3)
        src = "".join(chr(c) for c in lows[:k])
        out.append(Rule(None, raw="swapcc swcc %s %s" % (src, src[::-1])))
        names.append(("cc", "swcc"))
        out.append(Rule(None, raw="swapcd swcd %s %s" % (src, ",".join(dots(1) for _ in range(k)))))
        names.append(("cd", "swcd"))
        out.append(Rule(None, raw="swapdd swdd %s %s" % (",".join(dots(1) for _ in range(k)), ",".join(dots(1) for _ in range(k)))))
        names.append(("dd", "swdd"))
    for kind, nm in names:
        for _ in range(rng.randint(1, 2)):
            bad = rng.random() < f6
            if kind == "g":
                second = "nosuch" if bad else nm
                test = rng.choice(["{%s}%s" % (nm, second), "[{%s]}%s" % (nm, second), "{%s" % nm, "}%s" % nm] if not bad
                                  else ["{%s}%s" % (nm, second), "[{%s]}%s" % (nm, second)])
                action = rng.choice(["@3", "?", "{%s" % nm, "}%s@1" % nm, "*"])
                out.append(Rule(None, raw="noback pass2 %s %s" % (test, action)))
            else:
                stage = {"cc": "correct", "cd": "context", "dd": "pass2"}[kind]
                rngs = rng.choice(["", "1-2", "2"])
                if bad:
                    test = "[%%%s%s]%%nosuch" % (nm, rngs)
                else:
                    test = rng.choice(["[%%%s%s]" % (nm, rngs), "%%%s%s" % (nm, rngs)])
                action = "%%%s" % nm if test.startswith("[") else "*"
                out.append(Rule(None, raw="noback %s %s %s" % (stage, test, action)))
    # match rules
    for _ in range(rng.randint(0, 3)):
        if not lows:
            break
        s = "".join(chr(rng.choice(lows)) for _ in range(rng.randint(1, 3)))
        out.append(Rule(None, raw="%s %s %s %s %s" % (rng.choice(["noback match", "noback match", "backmatch"]), rng.choice(MATCH_PATTERNS), s,
                                                     rng.choice(MATCH_PATTERNS), dots())))
    for _ in range(rng.randint(0, 2)):
        if lows:
            out.append(Rule(None, raw="display %s %s" % (chr(rng.choice(lows)), dots_str(rng.randint(1, 63)))))
    if hyph:
        out.append(Rule(None, raw="include %s" % hyph))
    t.rules += out
    return out


def gen_hyph_dic(rng, t, n=None):
    """a small hyphenation dictionary over the table's letters (text of the .dic file)"""
    lows = [chr(c) for c in t.charcell if 0x61 <= c <= 0x7a] or ["a"]
    lines = ["UTF-8"]
    for _ in range(n or rng.randint(3, 30)):
        w = [rng.choice(lows) for _ in range(rng.randint(1, 5))]
        pat = ""
        if rng.random() < 0.2:
            pat += "."
        for ch in w:
            if rng.random() < 0.4:
                pat += str(rng.randint(1, 9))
            pat += ch
        if rng.random() < 0.3:
            pat += str(rng.randint(1, 9))
        if rng.random() < 0.2:
            pat += "."
        lines.append(pat)
    return "\n".join(lines) + "\n"


MALFORMED = ["nosuchopcode a 1", "always", "always ab", "always ab 19z", "always ab 1-", "letter ab 12", "sign", "after nosuchclass always ab 12",
             "noback pass2 @1", "noback pass2 [@1 @2", "pass2 @1 @2", "noback match %[ ab - 12", "noback match - ab ( 12",
             "noback context \"a @1", "noback correct @1 \"a\"", "include nosuchfile.ctb", "grouping g ab 1", "swapcd s ab 1",
             "noback pass2 {nosuchgroup @1", "noback pass2 %nosuchswap @1", "emphletter nosuchclass 1", "base nosuchattr", "multind 1 nosuch",
             "noback nofor always ab 1", "numericmodechars \\x0f00", "capsmodechars \\x0f01", "display ab 1", "display a 1-2", "math \\x0f02"]


# rejected by compileRule before anything has been stored (observed; the oracle of C15 re-checks it on every run)
MALFORMED_CLEAN = ["nosuchopcode a 1", "always", "always ab", "always ab 19z", "always ab 1-", "letter ab 12", "sign",
                   "after nosuchclass always ab 12", "include nosuchfile.ctb", "grouping g ab 1", "emphletter nosuchclass 1",
                   "multind 1 nosuch", "noback nofor always ab 1", "numericmodechars \\x0f00",
                   "capsmodechars \\x0f01", "display ab 1", "display a 1-2", "math \\x0f02", "always \\x0f03 =", "letter \\x0f04",
                   "letter \\x0f05 1z", "undefined", "numsign 1z", "swapcc s2 ab", "comp6 ab 1", "hyphen ab 1",
                   "exactdots ab", "locale", "uplow Aa 1", "before"]
# rejected only after a partial effect, or accepted although an error is logged (findings of C15; each is tried in isolation)
MALFORMED_DIRTY = [("noback pass2", "pass"), ("correct \"a\" \"b\"", "pass"), ("noback pass2 @1", "pass"), ("noback pass3 [@1 @2", "pass"), ("noback pass4 @1 @2z", "pass"),
                   ("noback correct @1 \"a\"", "pass"), ("noback pass2 {nosuchgroup @1", "pass"), ("noback pass2 %nosuchswap @1", "pass"),
                   ("noback match %[ ab - 12", "match"), ("noback match - ab ( 12", "match"), ("nofor match - ab ( 12", "match"),
                   ("base uppercase \\x0994", "base"), ("base uppercase \\x0994 ab", "base"), ("base nosuchattr", "base"),
                   ("begmodeword nosuchmode", "modeword"), ("lencapsphrase 0", "lenphrase"), ("lenemphphrase italic 0", "lenphrase"),
                   ("grouping g1 \\x0998\\x0999 1,2", "grouping"), ("swapcd s1 ab 1,2", "swap"),
                   ("numericmodechars a\\x09ac", "modechars"), ("capsmodechars a\\x09ae", "modechars"), ("numericnocontchars a\\x09af", "modechars"),
                   ("seqdelimiter a\\x09b3", "modechars"), ("syllable", "syllable"), ("syllable ab", "syllable"), ("syllable \\x09b0 1z", "syllable"),
                   ("noback context \"a @1", "unterminated-string"), ("noback correct \"a\" \"b", "unterminated-string"),
                   ("attribute nosuch1 \\x099b", "attribute-name"), ("rependword \\x09a1 1,2z", "rependword")]


def gen_addition(rng, t, i, malformed=0.0, kinds=("def", "trans", "pass", "display", "extras"), fat=0.0, strict=False):
    """one rule for lou_compileString on a table built from the Tbl `t` (which is updated for rules that define
    characters): returns (text, kind).  `i` numbers the additions (fresh characters U+0400+i)."""
    if rng.random() < malformed:
        return rng.choice(MALFORMED_CLEAN if strict else MALFORMED), "malformed"
    if fat and rng.random() < fat:
        # a long rule (several hundred bytes in the image), to make the image grow
        cs = [c for c in t.chars() if c != 0x20] or [0x61]
        # (at most 50 characters: TranslationTableRule.charsdots is declared widechar[50] and indexing it beyond that
        # aborts under UBSan's bounds check, finding F18; the cells are addressed through a pointer)
        return "%salways %s %s" % (rng.choice(["", "noback ", "nofor "]), chars_str([rng.choice(cs) for _ in range(rng.randint(2, 50))]),
                                    cells_str([rng.randint(1, 63) for _ in range(rng.randint(100, 400))])), "fat"
    kind = rng.choice(kinds)
    cells = [c for c in t.cells() if c] or [1]
    if kind in ("trans", "pass") and not [c for c in t.chars() if c != 0x20]:
        kind = "def"
    if kind == "def":
        c = 0x0400 + (i % 0x300)
        olds = [x for x in t.chars() if x != 0x20]
        if olds and rng.random() < 0.15:
            # a character the table (its FILE, for the first additions) already defines: defined again at run time
            c = rng.choice(olds)
        op = rng.choice(["letter", "lowercase", "sign", "punctuation", "math", "digit", "litdigit", "space", "uppercase"])
        d = [rng.randint(1, 255) for _ in range(rng.randint(1, 2))]
        t.charcell.setdefault(c, d[0])
        t.attrs.setdefault(c, op)
        return "%s%s %s %s" % (rng.choice(["", "", "noback ", "nofor "]), op, char_str(c), cells_str(d)), kind
    if kind == "trans" and rng.random() < 0.3:
        # ONE character the table does not know yet and several cells: linking the rule allocates the character record
        # (64 bytes) after the rule itself - a growth of the image may fall exactly between the two (seeded change C15-X
        # kept a pointer to the rule across it)
        return "always %s %s" % (char_str(0x0900 + (i % 0x600)), cells_str([rng.choice(cells) for _ in range(rng.randint(2, 3))])), kind
    if kind == "trans":
        tmp = Tbl()
        tmp.charcell, tmp.attrs = t.charcell, t.attrs
        gen_translation_rules(rng, tmp, n=1, allow_equals=False)
        return tmp.rules[0].text(), kind
    if kind == "pass":
        st = rng.choice(["correct", "context", "pass2", "pass3", "pass4"])
        return gen_pass_rule(rng, t, st, rng.choice(["noback", "nofor"]), literal_only=rng.random() < 0.7).text(), kind
    if kind == "display":
        cs = t.chars() or [0x61]
        return "display %s %s" % (char_str(rng.choice(cs)), dots_str(rng.randint(1, 255))), kind
    # extras: names and references, match rules, indicators
    r = rng.random()
    lows = [c for c in t.charcell if 0x61 <= c <= 0x7a] or [0x61]
    names = t.__dict__.setdefault("names", set())
    if r < 0.2:
        nm = "g" + "abcdefgh"[i % 8]
        names.add(nm)
        return "grouping %s %s%s %s,%s" % (nm, char_str(0x0700 + 2 * (i % 0x80)), char_str(0x0701 + 2 * (i % 0x80)),
                                            dots_str(rng.randint(1, 255)), dots_str(rng.randint(1, 255))), "grouping"
    if r < 0.35:
        nm = "g" + "abcdefgh"[rng.randrange(8)]
        if strict and nm not in names:
            return "letsign 56", "indicator"
        return "noback pass2 {%s}%s @%s" % (nm, nm, dots_str(rng.choice(cells))), "groupref"
    if r < 0.5:
        src = "".join(chr(c) for c in lows[:3])
        nm = "s" + "abcdefgh"[i % 8]
        names.add(nm)
        return "swapcd %s %s %s" % (nm, src, ",".join(dots_str(rng.choice(cells)) for _ in src)), "swap"
    if r < 0.65:
        nm = "s" + "abcdefgh"[rng.randrange(8)]
        if strict and nm not in names:
            return "numsign 3456", "indicator"
        return "noback context [%%%s] %%%s" % (nm, nm), "swapref"
    if r < 0.85:
        sx = "".join(chr(rng.choice(lows)) for _ in range(rng.randint(1, 3)))
        return "%s %s %s %s %s" % (rng.choice(["noback match", "noback match", "backmatch"]), rng.choice(MATCH_PATTERNS), sx, rng.choice(MATCH_PATTERNS),
                                    cells_str([rng.choice(cells)])), "match"
    return rng.choice(["letsign 56", "numsign 3456", "nonumsign 56", "nocontractsign 5", "begcomp 456-346", "undefined 3456",
                       "capsletter 6", "begcapsword 6-6", "endcapsword 6-3", "attribute myattr " + "".join(chr(c) for c in lows[:2]),
                       "base uppercase %s %s" % (chr(lows[0] - 32), chr(lows[0]))]), "indicator"


def rand_text(rng, t, maxlen=12, undefined=0.05):
    cs = t.chars()
    n = rng.randint(0, maxlen)
    out = []
    for _ in range(n):
        r = rng.random()
        if r < undefined:
            out.append(rng.choice([0x7a, 0x3b1, 0xffff, 0x5a]))
        elif r < 0.2:
            out.append(0x20)
        else:
            out.append(rng.choice(cs))
    return out


def rand_text_rules(rng, t, maxlen=12):
    """text built mostly from the character strings of the table's own rules, so that multi-character
    rules, their prefixes and overlaps are actually exercised"""
    strs = [r.chars for r in t.rules if r.chars and r.test is None and r.raw is None and len(r.chars) > 1]
    if not strs:
        return rand_text(rng, t, maxlen)
    out = []
    while len(out) < maxlen and rng.random() < 0.85:
        r = rng.random()
        if r < 0.6:
            s = list(rng.choice(strs))
            if rng.random() < 0.2 and len(s) > 1:
                s = s[:-1]
            if rng.random() < 0.15 and s[0] in t.upper:
                s[0] = t.upper[s[0]]
            out += s
        elif r < 0.8:
            out.append(0x20)
        else:
            out += rand_text(rng, t, 2)
    return out[:maxlen]


def rand_cells(rng, t, maxlen=12, undefined=0.05):
    cs = t.cells()
    n = rng.randint(0, maxlen)
    out = []
    for _ in range(n):
        r = rng.random()
        if r < undefined:
            out.append(0x8000 | rng.randint(64, 255))
        elif r < 0.2:
            out.append(0x8000)
        else:
            out.append(0x8000 | rng.choice(cs))
    return out


# ---------------------------------------------------------------- structured entries for the Lean compile model

OPNAME = {"always": "CTO_Always", "word": "CTO_WholeWord", "partword": "CTO_PartWord", "begword": "CTO_BegWord",
          "midword": "CTO_MidWord", "endword": "CTO_EndWord", "begmidword": "CTO_BegMidWord",
          "midendword": "CTO_MidEndWord", "sufword": "CTO_SuffixableWord", "prfword": "CTO_PrefixableWord",
          "lowword": "CTO_LowWord", "space": "CTO_Space", "digit": "CTO_Digit", "litdigit": "CTO_LitDigit",
          "punctuation": "CTO_Punctuation", "math": "CTO_Math", "sign": "CTO_Sign", "letter": "CTO_Letter",
          "uppercase": "CTO_UpperCase", "lowercase": "CTO_LowerCase", "numsign": "CTO_NumberSign",
          "undefined": "CTO_Undefined"}

_opnum = None


def opnum(name):
    """opcode number from the generated Lean constants (lean/LouModel/Gen/Consts.lean)"""
    global _opnum
    if _opnum is None:
        import os, re
        p = os.path.join(os.path.dirname(os.path.dirname(os.path.dirname(os.path.abspath(__file__)))),
                         "lean", "LouModel", "Gen", "Consts.lean")
        _opnum = {m.group(1): int(m.group(2)) for m in re.finditer(r"^def (CTO_\w+) : Nat := (\d+)", open(p).read(), re.M)}
    return _opnum[OPNAME[name]]


def parse_dots_operand(s):
    """'12-3' -> [0x8003, 0x8004]"""
    out = []
    for cell in s.split("-"):
        v = 0x8000
        for ch in cell:
            if ch == "0":
                continue
            v |= 1 << ("123456789abcdef".index(ch))
        out.append(v)
    return out


def entry_str(rule):
    """`opcode:chars:dots:flags` for one Rule of the F0' fragment; None when the rule is outside it"""
    def w(l):
        return "".join("%04x" % x for x in l) or "-"
    fl = ("b" if rule.prefix == "noback" else "") + ("f" if rule.prefix == "nofor" else "") or "-"
    if rule.raw is not None:
        p = rule.raw.split()
        if p[0] in ("numsign", "undefined") and len(p) == 2:
            return "%d:-:%s:%s" % (opnum(p[0]), w(parse_dots_operand(p[1])), fl)
        return None
    if rule.test is not None or rule.opcode not in OPNAME:
        return None
    dots = [] if rule.cells is None else [0x8000 | c for c in rule.cells]
    return "%d:%s:%s:%s" % (opnum(rule.opcode), w(rule.chars), w(dots), fl)
