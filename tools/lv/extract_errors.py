"""Tie-G for C13: source inventory of the table compiler's error accounting, generated into
lean/LouModel/Gen/ErrorSites.lean.

From /repo/liblouis/compileTranslationTable.c and pattern.c (comments stripped, preprocessor lines blanked —
both branches of every #if stay —, tokenised; no compiler needed):

 (a) `countSites`: every `errorCount ++` (token pair).  For each: file, enclosing function, line, brace depth
     inside the function (1 = directly in the function body), and
       logInBlock = an error-level log call occurs EARLIER IN THE SAME INNERMOST BRACE BLOCK, i.e. between the
                    `{` that opens the innermost block containing the increment and the increment itself, at the
                    same nesting level or deeper (un-braced if/else arms count as the same block);
       logInFunc  = an error-level log call occurs anywhere earlier in the same function.
     "error-level log call" = the token sequence `compileError (` or `_lou_logMessage ( LOU_LOG_ERROR`.
 (b) `logSites`: every such call, with file, function, line, callee, the literal format text, depth, the tokens
     between the previous statement boundary (`;` `{` `}`) and the call (`lead`, e.g. "if ( file )", "else"), and
       countInBlock = an `errorCount ++` occurs LATER IN THE SAME INNERMOST BRACE BLOCK (before its closing `}`),
       returnAfter  = the first `return <expr> ;` / `goto <label> ;` / `break ;` statement that follows the call
                      in the same innermost block ("" if none).
 (c) `refs`: every other occurrence of the identifier `errorCount` (kind: decl / reset = followed by `=` /
     read), with the statement text for resets and reads.
 (d) `MAXSTRING` and the lexer constants the Lean model hard-codes (checked by `decide` in LouProofs/C13.lean).
"""
import os, re
from . import common
from .extract_log import strip_comments, drop_preprocessor, tokens, match_paren, lstr

FILES = ("compileTranslationTable.c", "pattern.c")


def is_log_at(toks, i):
    t = toks[i][1]
    if t == "compileError" and i + 1 < len(toks) and toks[i + 1][1] == "(":
        return True
    return (t == "_lou_logMessage" and i + 2 < len(toks) and toks[i + 1][1] == "(" and toks[i + 2][1] == "LOU_LOG_ERROR")


def scan(path):
    name = os.path.basename(path)
    toks = tokens(drop_preprocessor(strip_comments(open(path, encoding="utf-8", errors="replace").read())))
    n = len(toks)
    # function extents and block structure
    open_of, stack = {}, []
    for i, (k, t, ln) in enumerate(toks):
        if t == "(":
            stack.append(i)
        elif t == ")" and stack:
            open_of[i] = stack.pop()
    func_at = [None] * n
    depth_at = [0] * n
    block_open = [None] * n      # index of the `{` of the innermost block containing token i
    depth = 0
    func = None
    bstack = []
    for i, (k, t, ln) in enumerate(toks):
        if t == "{":
            if depth == 0:
                func = "<file-scope>"
                if i > 0 and toks[i - 1][1] == ")" and (i - 1) in open_of:
                    o = open_of[i - 1]
                    if o > 0 and toks[o - 1][0] == "id":
                        func = toks[o - 1][1]
            depth += 1
            bstack.append(i)
        func_at[i] = func if depth > 0 else None
        depth_at[i] = depth
        block_open[i] = bstack[-1] if bstack else None
        if t == "}":
            depth -= 1
            bstack.pop()
            if depth == 0:
                func = None
    if depth != 0:
        raise ValueError("%s: braces do not balance (extractor out of date)" % name)

    def block_close(o):
        d = 0
        for j in range(o, n):
            if toks[j][1] == "{":
                d += 1
            elif toks[j][1] == "}":
                d -= 1
                if d == 0:
                    return j
        return n - 1

    def func_start(i):
        j = i
        while j > 0 and depth_at[j - 1] >= 1 and func_at[j - 1] == func_at[i]:
            j -= 1
        return j

    counts, logs, refs = [], [], []
    for i, (k, t, ln) in enumerate(toks):
        if func_at[i] is None:
            if k == "id" and t == "errorCount":
                refs.append((name, "<file-scope>", ln, "decl", ""))
            continue
        if k == "id" and t == "errorCount":
            nxt = toks[i + 1][1] if i + 1 < n else ""
            if nxt == "++":
                o = block_open[i]
                in_block = any(is_log_at(toks, j) for j in range(o, i))
                in_func = any(is_log_at(toks, j) for j in range(func_start(i), i))
                counts.append((name, func_at[i], ln, depth_at[i], in_block, in_func))
            else:
                # statement text
                a = i
                while a > 0 and toks[a - 1][1] not in (";", "{", "}"):
                    a -= 1
                b = i
                while b < n and toks[b][1] not in (";", "{"):
                    b += 1
                stmt = " ".join(x[1] for x in toks[a:b])
                kind = "reset" if (nxt == "=" ) else "read"
                refs.append((name, func_at[i], ln, kind, stmt))
        if is_log_at(toks, i):
            callee = t
            close = match_paren(toks, i + 1)
            args, cur, d = [], [], 0
            for x in toks[i + 2:close]:
                if x[1] in "([{":
                    d += 1
                elif x[1] in ")]}":
                    d -= 1
                if x[1] == "," and d == 0:
                    args.append(cur)
                    cur = []
                else:
                    cur.append(x)
            args.append(cur)
            fa = args[1] if len(args) > 1 else []
            fmt = "".join(x[1][1:-1] for x in fa) if fa and all(x[0] == "str" for x in fa) else "<non-literal>"
            o = block_open[i]
            c = block_close(o)
            # later in the same innermost block (nested blocks included)
            count_after = any(toks[j][1] == "errorCount" and toks[j + 1][1] == "++" for j in range(close, c))
            ret = ""
            j = close
            dd = 0
            while j < c:
                tj = toks[j][1]
                if tj == "{":
                    dd += 1
                elif tj == "}":
                    dd -= 1
                elif dd == 0 and tj in ("return", "goto", "break"):
                    e = j
                    while toks[e][1] != ";":
                        e += 1
                    ret = " ".join(x[1] for x in toks[j:e])
                    break
                j += 1
            a = i
            while a > 0 and toks[a - 1][1] not in (";", "{", "}"):
                a -= 1
            lead = " ".join(x[1] for x in toks[a:i])
            logs.append((name, func_at[i], ln, callee, fmt, depth_at[i], lead, count_after, ret))
    return counts, logs, refs


def consts():
    src = strip_comments(open(os.path.join(common.REPO, "liblouis", "internal.h")).read())
    out = {}
    for nm in ("MAXSTRING", "MAX_SOURCE_FILES"):
        m = re.search(r"#define\s+%s\s+(\d+)" % nm, src)
        if not m:
            raise ValueError("cannot find %s in internal.h" % nm)
        out[nm] = int(m.group(1))
    lib = None
    for h in ("liblouis.h.in", "liblouis.h"):
        p = os.path.join(common.REPO, "liblouis", h)
        if os.path.exists(p):
            lib = strip_comments(open(p).read())
            break
    m = re.search(r"LOU_DOTS\s*=\s*(0[xX][0-9a-fA-F]+)", lib)
    out["LOU_DOTS"] = int(m.group(1), 16)
    m = re.search(r"#define\s+LOU_ENDSEGMENT\s+(0[xX][0-9a-fA-F]+)", lib)
    out["LOU_ENDSEGMENT"] = int(m.group(1), 16)
    dots = []
    for k in range(1, 16):
        m = re.search(r"LOU_DOT_%d\s*=\s*(0[xX][0-9a-fA-F]+)" % k, lib)
        if not m:
            raise ValueError("cannot find LOU_DOT_%d" % k)
        dots.append(int(m.group(1), 16))
    out["DOTS"] = dots
    cs = strip_comments(open(os.path.join(common.REPO, "liblouis", "compileTranslationTable.c")).read())
    m = re.search(r"#define\s+QUOTESUB\s+(\d+)", cs)
    out["QUOTESUB"] = int(m.group(1))
    m = re.search(r"first0Bit\[MAXBYTES\]\s*=\s*\{([^}]*)\}", cs)
    out["first0Bit"] = [int(x.strip(), 16) for x in m.group(1).split(",") if x.strip()]
    # the configured character width: liblouis.h is generated from liblouis.h.in by the repo's makefile
    gen = strip_comments(open(os.path.join(common.REPO, "liblouis", "liblouis.h")).read())
    m = re.search(r"typedef\s+unsigned\s+([a-z ]*?)\s*widechar\s*;", gen)
    if not m:
        raise ValueError("cannot find the widechar typedef in liblouis.h")
    out["CHARSIZE"] = 2 if "short" in m.group(1) else 4
    return out


def generate():
    d = os.path.join(common.REPO, "liblouis")
    counts, logs, refs = [], [], []
    for f in FILES:
        c, l, r = scan(os.path.join(d, f))
        counts += c
        logs += l
        refs += r
    if len(counts) < 5 or len(logs) < 50:
        raise ValueError("error-site inventory implausibly small: extractor out of date")
    k = consts()
    b = lambda x: "true" if x else "false"
    L = ["/- GENERATED by tools/lv/extract_errors.py from <REPO>/liblouis — do not edit. -/",
         "namespace Lou.Gen.ErrorSites", "",
         "structure CountSite where", "  file : String", "  func : String", "  line : Nat", "  depth : Nat",
         "  logInBlock : Bool", "  logInFunc : Bool", "  deriving DecidableEq, Repr", "",
         "structure LogSite where", "  file : String", "  func : String", "  line : Nat", "  callee : String", "  fmt : String",
         "  depth : Nat", "  lead : String", "  countInBlock : Bool", "  exit : String", "  deriving DecidableEq, Repr", "",
         "structure Ref where", "  file : String", "  func : String", "  line : Nat", "  kind : String", "  stmt : String",
         "  deriving DecidableEq, Repr", "",
         "/-- (a) every `errorCount++` -/", "def countSites : List CountSite := ["]
    L.append(",\n".join("  ⟨%s, %s, %d, %d, %s, %s⟩" % (lstr(f), lstr(fn), ln, dp, b(ib), b(inf)) for f, fn, ln, dp, ib, inf in counts))
    L += ["]", "", "/-- (b) every error-level log call: `compileError(` and `_lou_logMessage(LOU_LOG_ERROR` -/",
          "def logSites : List LogSite := ["]
    L.append(",\n".join("  ⟨%s, %s, %d, %s, %s, %d, %s, %s, %s⟩" % (lstr(f), lstr(fn), ln, lstr(cal), lstr(fmt), dp, lstr(lead), b(ca), lstr(ret))
                         for f, fn, ln, cal, fmt, dp, lead, ca, ret in logs))
    L += ["]", "", "/-- (c) every other occurrence of `errorCount` -/", "def refs : List Ref := ["]
    L.append(",\n".join("  ⟨%s, %s, %d, %s, %s⟩" % (lstr(f), lstr(fn), ln, lstr(kd), lstr(st)) for f, fn, ln, kd, st in refs))
    L += ["]", "", "/-- (d) constants -/",
          "def MAXSTRING : Nat := %d" % k["MAXSTRING"], "def MAX_SOURCE_FILES : Nat := %d" % k["MAX_SOURCE_FILES"],
          "def LOU_DOTS : Nat := %d" % k["LOU_DOTS"], "def LOU_ENDSEGMENT : Nat := %d" % k["LOU_ENDSEGMENT"],
          "def QUOTESUB : Nat := %d" % k["QUOTESUB"], "def CHARSIZE : Nat := %d" % k["CHARSIZE"],
          "def dotBits : List Nat := [%s]" % ", ".join(str(x) for x in k["DOTS"]),
          "def first0Bit : List Nat := [%s]" % ", ".join(str(x) for x in k["first0Bit"]), "",
          "end Lou.Gen.ErrorSites", ""]
    out = os.path.join(common.LEAN, "LouModel", "Gen", "ErrorSites.lean")
    text = "\n".join(L)
    if not os.path.exists(out) or open(out).read() != text:
        open(out, "w").write(text)
    return {"counts": len(counts), "logs": len(logs), "refs": len(refs)}
