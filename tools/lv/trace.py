"""Trace validation (DESIGN 5.9): replay the recorded passes of a real FWD/BWD call through
the Lean driver model and compare every API-visible field."""
from . import common


def trace_line(op, R):
    """op: the FWD/BWD protocol line (str); R: parsed result dict.  Returns the TRACE line for
    the model driver, or None when the call cannot be replayed (no table info)."""
    t = op.split(" ")
    back = t[0] == "BWD"
    if "ti" not in R:
        return None
    corr, npass = R["ti"]
    mode, outcap, cursor, argmask, inh, tfh = t[2], t[3], t[4], int(t[5]), t[6], t[7]
    recs = []
    for p in R["passes"]:
        recs += [common.wide(p["out"]), ",".join(map(str, p["map"])) or ".", str(p["realInlen"]),
                 str(p["cpos"]), str(p["cstat"])]
    return " ".join(["TRACE", "B" if back else "F", str(corr), str(npass), mode, outcap, cursor,
                     str(argmask & 31), inh, tfh if (argmask & 1) else "-", R.get("disp", "."),
                     str(len(R["passes"]))] + recs)


def expected_line(op, R):
    """what the model must print for this call: built from the implementation's result"""
    t = op.split(" ")
    back = t[0] == "BWD"
    argmask = int(t[5])
    out = common.wide(R["out"]) if R["ret"] else "-"
    tf = R.get("tf", "-") if not back else "-"
    if not R["ret"]:
        tf = "-"
    s = "R %d %d %d %s tf=%s op=%s ip=%s cur=%s" % (R["ret"], R["inlen"], R["outlen"], out, tf,
                                                    R.get("op", "-"), R.get("ip", "-"), R.get("cur", "-"))
    for p in R["passes"]:
        s += " | I %d %s %d" % (p["pass"], common.wide(p["in"]), p["max"])
    return s


def compare(op, R, model_line):
    """returns (ok, detail, eok, nn, failed_clauses)"""
    exp = expected_line(op, R)
    main, _, tail = model_line.rpartition(" | N ")
    eok = "EOK=1" in tail
    nn = "NN=1" in tail
    failed = tail.partition(" F=")[2].strip()
    if not eok:
        # a recorded pass violates the engine contract (EngineOK): the Layer A theorems do not
        # apply to this call and the C reads unset scratch memory; reported by the callers as a
        # contract failure (C04/C01), never as a broken correspondence
        return None, "contract", eok, nn, failed
    if not R["ret"]:
        # on failure only the return value is compared (arrays are unspecified)
        ok = main.startswith("R 0 ")
        return ok, "" if ok else "model predicts success, implementation returned 0", eok, nn, failed
    # a cursor outside the consumed input reads caller garbage; not compared
    t = op.split(" ")
    cur_ok = True
    if t[4] != "-" and (int(t[5]) & 16) and (int(t[5]) & 4):
        c = int(t[4])
        if not (0 <= c < R["inlen"]):
            cur_ok = False
    if not cur_ok:
        import re
        exp = re.sub(r" cur=\S+", " cur=*", exp)
        main = re.sub(r" cur=\S+", " cur=*", main)
    if exp == main:
        return True, "", eok, nn, failed
    return False, "expected: %s\nmodel:    %s" % (exp[:1500], main[:1500]), eok, nn, failed
