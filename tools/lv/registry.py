"""property id -> theorems (fully qualified Lean names) registered for it"""
THEOREMS = {
    "C07": [
        "Lou.C07.clampArr_range", "Lou.C07.scan_mono", "Lou.C07.scan_lt", "Lou.C07.scan_nonneg",
        "Lou.C07.scan_clamp_le",
        "Lou.C07.fwd_inputPos_range", "Lou.C07.fwd_outputPos_mono", "Lou.C07.fwd_outputPos_range",
        "Lou.C07.fwd_roundtrip", "Lou.C07.fwd_cursor_mapped",
        "Lou.C07.back_outputPos_range", "Lou.C07.back_inputPos_mono", "Lou.C07.back_inputPos_range",
        "Lou.C07.back_roundtrip",
    ],
}
