"""Independent executable reference of the documented main-pass algorithm (property C05), written
from the property text and the liblouis manual, NOT from the Lean model or the C code:

  at each input position apply, among the rules whose characters match there and whose opcode
  condition on word position, neighbouring character classes and mode holds, the one with the
  longest character string; ties go to rules other than 'always', then to the rule defined first;
  single-character rules precede the character's own definition; otherwise the undefined fallback.
  When the output capacity runs out: back off to the start of the current word, skip following blanks.

It works on the structured entries of a generated table (tools/lv/gen_table.py), in file order."""

SPACE, LETTER, DIGIT, PUNCT, UPPER, LOWER, MATH, SIGN, LITDIGIT = 1, 2, 4, 8, 16, 32, 64, 128, 256
ATTR = {"space": SPACE, "letter": LETTER, "digit": DIGIT, "punctuation": PUNCT, "uppercase": UPPER | LETTER,
        "lowercase": LOWER | LETTER, "math": MATH, "sign": SIGN, "litdigit": LITDIGIT}
DEFOPS = {"space", "letter", "digit", "punctuation", "uppercase", "lowercase", "math", "sign"}   # litdigit is not a definition
WORDOPS = {"always", "word", "partword", "begword", "midword", "endword", "begmidword", "midendword", "sufword",
           "prfword", "lowword"}

FALLBACK = None   # filled by the caller from the generated constants (for undefined characters)


class RefTable:
    def __init__(self, tbl):
        self.attrs = {0xffff: SPACE}
        self.defcell = {0xffff: [0xffff]}      # first definition wins
        self.single = {}                        # char -> list of (order, opcode, cells|None, fileidx)
        self.multi = []                         # (chars, opcode, cells|None, fileidx)
        self.numsign = None
        self.undefined = None
        idx = 1                                  # rule 0 is the built-in end-segment definition
        for r in tbl.rules:
            if r.raw is not None:
                p = r.raw.split()
                cells = _cells(p[1])
                if p[0] == "numsign":
                    self.numsign = cells
                elif p[0] == "undefined":
                    self.undefined = cells
                idx += 1
                continue
            op = r.opcode
            cells = None if r.cells is None else [0x8000 | c for c in r.cells]
            if op in ATTR:
                c = r.chars[0]
                self.attrs[c] = self.attrs.get(c, 0) | ATTR[op]
                if r.prefix != "nofor":
                    isdef = op in DEFOPS
                    if isdef and c not in self.defcell:
                        self.defcell[c] = cells
                    self.single.setdefault(c, []).append((1 if isdef else 0, op, cells, idx))
            elif op in WORDOPS and r.prefix != "nofor":
                if len(r.chars) == 1:
                    # a character that has a rule of its own is known to the table (no class) and
                    # therefore no longer counts as a blank
                    self.attrs.setdefault(r.chars[0], 0)
                    self.single.setdefault(r.chars[0], []).append((0, op, cells, idx))
                else:
                    self.multi.append((list(r.chars), op, cells, idx))
            idx += 1

    def attr(self, c):
        return self.attrs.get(c, SPACE)     # an unknown character counts as a blank

    def is_space(self, c):
        return bool(self.attr(c) & SPACE)


def _cells(s):
    out = []
    for cell in s.split("-"):
        v = 0x8000
        for ch in cell:
            if ch != "0":
                v |= 1 << "123456789abcdef".index(ch)
        out.append(v)
    return out


def condition(op, before, after, nocontract, prevop):
    b = lambda m: bool(before & m)
    a = lambda m: bool(after & m)
    if op in ATTR:
        return True
    if nocontract:
        return False
    if op == "always":
        return True
    if op == "word":
        return b(SPACE | PUNCT) and a(SPACE | PUNCT)
    if op == "partword":
        return b(LETTER) or a(LETTER)
    if op == "lowword":
        return b(SPACE) and a(SPACE)
    if op == "sufword":
        return b(SPACE | PUNCT) and a(SPACE | LETTER | PUNCT)
    if op == "prfword":
        return b(SPACE | LETTER | PUNCT) and a(SPACE | PUNCT)
    if op == "begword":
        return b(SPACE | PUNCT) and a(LETTER)
    if op == "begmidword":
        return b(LETTER | SPACE | PUNCT) and a(LETTER)
    if op == "midword":
        return b(LETTER) and a(LETTER)
    if op == "midendword":
        return b(LETTER) and a(LETTER | SPACE | PUNCT)
    if op == "endword":
        return b(LETTER) and a(SPACE | PUNCT)
    return False


def neighbours(rt, text, pos, length):
    n = len(text)
    if pos >= 2 and text[pos - 1] == 0xffff:
        bc = text[pos - 2]
    else:
        bc = 0x20 if pos == 0 else text[pos - 1]
    if pos + length + 2 < n and text[pos + 1] == 0xffff:
        ac = text[pos + 2]
    else:
        ac = text[pos + length] if pos + length < n else 0x20
    return rt.attr(bc), rt.attr(ac)


def multi_matches(rt, text, pos, chars):
    """the characters match (no case folding in this fragment); the class-change clause of the
    matcher only concerns mixed-case letter runs"""
    n = len(chars)
    if pos + n > len(text):
        return False
    prev = 0
    for k in range(n):
        ic = text[pos + k]
        if ic == 0xffff:
            return k == 0 and n == 1
        if ic != chars[k]:
            return False
        at = rt.attr(ic)
        if k == 0:
            prev = at
        if at != LETTER and k != 1 and (prev & LETTER) and (at & LETTER) and \
                (at & (LOWER | UPPER | LETTER)) != (prev & (LOWER | UPPER | LETTER)):
            return False
        prev = at
    return True


def select(rt, text, pos, nocontract, prevop):
    remaining = len(text) - pos
    best = None
    if remaining >= 2:
        for chars, op, cells, idx in rt.multi:
            if len(chars) > remaining or not multi_matches(rt, text, pos, chars):
                continue
            before, after = neighbours(rt, text, pos, len(chars))
            if not condition(op, before, after, nocontract, prevop):
                continue
            key = (-len(chars), 1 if op == "always" else 0, idx)
            if best is None or key < best[0]:
                best = (key, op, cells, len(chars), chars)
    if best:
        return best[1], best[2], best[3], best[4]
    c = text[pos]
    for order, op, cells, idx in sorted(rt.single.get(c, []), key=lambda x: (x[0], x[3])):
        before, after = neighbours(rt, text, pos, 1)
        if condition(op, before, after, nocontract, prevop):
            return op, cells, 1, [c]
    return None, None, 1, [c]


def show_hex(c):
    return [ord(x) for x in "'\\x%04x'" % c]


def translate(tbl, text, cap, mode, fallback):
    """returns (cells, consumed, inputpos-per-cell, applied rule descriptions)"""
    rt = RefTable(tbl)
    if 0 in text:
        text = text[: text.index(0)]
    n = len(text)
    out, pm, applied = [], [], []
    pos = 0
    prevop = None
    word_in, word_out = 0, 0
    nocontract_mode = bool(mode & 1)
    failed = False

    def put(cells, inlen, p):
        nonlocal failed
        if len(out) + len(cells) > cap or p + inlen > n:
            failed = True
            return False
        out.extend(cells)
        pm.extend([p] * len(cells))
        return True

    def put_char(c, p):
        if c in rt.defcell and rt.defcell[c] is not None:
            return put(rt.defcell[c], 1, p)
        if rt.undefined is not None:
            return put(rt.undefined, 0, p)
        txt = [] if (mode & 128) else show_hex(c)
        cells = []
        for ch in txt:
            d = None
            for order, op, cl, idx in sorted(rt.single.get(ch, []), key=lambda x: (x[0], x[3])):
                if op in DEFOPS and cl is not None and len(cl) == 1:
                    d = cl[0]
                    break
            cells.append(d if d else fallback[ch])
        return put(cells, 1, p)

    while True:
        if pos > 0 and rt.is_space(text[pos - 1]):
            word_in, word_out = pos, len(out)
        if pos >= n:
            break
        before, _ = neighbours(rt, text, pos, 1)
        op, cells, length, chars = select(rt, text, pos, nocontract_mode, prevop)
        # number sign before a digit that does not follow a digit
        if rt.numsign is not None and (rt.attr(text[pos]) & DIGIT) and not (before & DIGIT):
            if not put(rt.numsign, 0, pos):
                break
        applied.append((op, chars, cells))
        if op is None:
            if not put_char(text[pos], pos):
                break
            pos += 1
        elif cells:
            if not put(cells, length, pos):
                break
            pos += length
        else:
            ok = True
            for k in range(length):
                if not put_char(text[pos], pos):
                    ok = False
                    break
                pos += 1
                if pos >= n:
                    break
            if not ok:
                break
        prevop = op if (op is None or op in WORDOPS or op in ("digit", "punctuation", "math", "sign", "letter",
                                                               "uppercase", "lowercase", "litdigit")) else prevop
    if failed:
        if word_out != 0 and pos < n and not rt.is_space(text[pos]):
            pos = word_in
            del out[word_out:]
            del pm[word_out:]
    while pos < n and rt.is_space(text[pos]):
        pos += 1
    return out, pos, pm, applied
