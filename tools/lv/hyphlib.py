"""Independent Python side of C17: dictionary lexer (transcribed from the C lexer), the
property's pattern-matching semantics written directly from the property text (the
oracle; it knows nothing about automata), the textbook automaton (trie + longest
proper suffix) in the canonical form of HYPDUMP, and generators for tables,
dictionaries and words.  Python stdlib only."""

MAXSTRING = 2048
DOT = 46


# ---------------------------------------------------------------- lexer (compileTranslationTable.c)

def get_lines(data):
    """_lou_getALine over getAChar for an 'ASCII 8' file (first two bytes < 128).
    Returns None for the other encodings (UTF-16 BOM, error)."""
    if len(data) < 2:
        return []
    if not (data[0] < 128 and data[1] < 128):
        return None
    lines = []
    i, n = 0, len(data)
    while True:
        cur = []
        eof = True
        while i < n:
            ch = data[i]
            i += 1
            if ch == 13:
                continue
            if ch == 10 or len(cur) >= MAXSTRING - 1:
                eof = False
                break           # (a character that arrives when the line is full is dropped)
            cur.append(ch)
        if eof and not cur:
            return lines
        lines.append(cur)


def tokens(line):
    out, cur = [], []
    for c in line:
        if c <= 32:
            if cur:
                out.append(cur)
                cur = []
        else:
            cur.append(c)
    if cur:
        out.append(cur)
    return out


FIRST0 = [0x80, 0xC0, 0xE0, 0xF0, 0xF8, 0xFC, 0xFE]


def parse_chars(tok):
    """parseChars (escape sequences + UTF-8 with the 'assuming Latin-1' recovery).
    Returns None where the C reports a compile error (the table then fails)."""
    n = len(tok)

    def tc(i):
        return tok[i] if i < n else 0

    out = []
    i = 0
    while i < n:
        ch = tok[i] & 0xff
        i += 1
        if ch < 128:
            if ch == 92:
                ch = tc(i)
                if ch == 92:
                    pass
                elif ch == ord('e'):
                    ch = 0x1b
                elif ch == ord('f'):
                    ch = 12
                elif ch == ord('n'):
                    ch = 10
                elif ch == ord('r'):
                    ch = 13
                elif ch == ord('s'):
                    ch = 32
                elif ch == ord('t'):
                    ch = 9
                elif ch == ord('v'):
                    ch = 11
                elif ch == ord('w'):
                    ch = 0xffff
                elif ch == 34:
                    ch = 28
                elif ch in (ord('X'), ord('x')):
                    if n - i > 4:
                        v = 0
                        for k in range(4):
                            d = tok[i + 1 + k]
                            if 48 <= d <= 57:
                                h = d - 48
                            elif 97 <= d <= 102:
                                h = d - 97 + 10
                            elif 65 <= d <= 70:
                                h = d - 65 + 10
                            else:
                                return None
                            v |= h << (4 * (3 - k))
                        ch = v
                        i += 4
                else:
                    return None          # \y \z (16-bit build) and everything else: compileError
                i += 1
            if len(out) >= MAXSTRING - 1:
                return None
            out.append(ch & 0xffff)
            continue
        last_in = i
        nb = 0
        for cand in range(6, 0, -1):
            if ch >= FIRST0[cand]:
                nb = cand
                break
        utf32 = ch & (0xff - FIRST0[nb])
        for _k in range(nb):
            if i >= MAXSTRING - 1 or i >= n:
                break
            if len(out) >= MAXSTRING - 1:
                return None
            if tok[i] < 128 or (tok[i] & 0x40):
                out.append(tok[last_in])
                i = last_in + 1
                continue
            utf32 = ((utf32 << 6) + (tok[i] & 0x3f)) & 0xffffffff
            i += 1
        if len(out) >= MAXSTRING - 1:
            return None
        if utf32 > 0xffff:
            return None
        out.append(utf32)
    return out


def split_pattern(hyph):
    """digits/letters split of compileHyphenation: returns (letters tuple, digits list of len+1)"""
    letters = []
    digits = [0]
    for c in hyph:
        if 48 <= c <= 57:
            digits[-1] = c - 48
        else:
            letters.append(c)
            digits.append(0)
    return tuple(letters), digits


def parse_dict(data):
    """bytes of a dictionary file -> list of (letters, digits) in file order.
    None = not a dictionary / the C reports an error / encoding outside the modelled lexer."""
    lines = get_lines(data)
    if not lines:
        return None
    t1 = tokens(lines[0])
    if not t1:
        return None
    first = t1[0]
    if not (first[:3] == list(b"ISO") or first[:5] == list(b"UTF-8")):
        return None
    iso = first[0] == ord('I')
    toks = []
    if len(t1) > 1:
        toks.append(t1[1])
    for l in lines[1:]:
        t = tokens(l)
        if t:
            toks.append(t[0])
    pats = []
    for t in toks:
        hyph = t if iso else parse_chars(t)
        if hyph is None:
            return None
        if not hyph or hyph[0] in (35, 37, 60):
            continue
        pats.append(split_pattern(hyph))
    return pats


# ---------------------------------------------------------------- the property, literally

class Spec:
    """'the contribution at each letter is the digit string of the longest suffix of the
    text read so far that is a prefix of some dictionary pattern, provided that suffix is
    itself a pattern'.  A letter string given twice keeps the digits of its last line."""

    def __init__(self, pats):
        self.patterns = {}
        self.prefixes = set()
        for letters, digits in pats:
            self.patterns[letters] = digits
            for k in range(len(letters) + 1):
                self.prefixes.add(letters[:k])
        self.maxlen = max([len(l) for l, _ in pats] + [0])

    def run_digits(self, run):
        """largest digit contributed at each position of a (lower-cased) run of letters"""
        text = [DOT] + list(run) + [DOT]
        n = len(run)
        best = [0] * n
        neg = False
        for i in range(len(text)):
            lo = max(0, i + 1 - self.maxlen)
            suf = None
            for j in range(lo, i + 2):
                s = tuple(text[j:i + 1])
                if s in self.prefixes:
                    suf = s
                    break
            if suf is None or suf not in self.patterns:
                continue
            digits = self.patterns[suf]
            for m, d in enumerate(digits):
                q = i - len(suf) + m          # digit m stands before text[i-len+1+m] = run[q]
                if 0 <= q < n:
                    if d > best[q]:
                        best[q] = d
                elif q < 0 and d:
                    neg = True               # a point before the leading '.': not a position of the word
        return best, neg

    def hyphenate(self, text, is_letter, lower, is_hyphen):
        """lou_hyphenate in text mode as the property states it: (ret, bytes written)"""
        n = len(text)
        if n >= 100:
            return 0, None
        out = [48] * n
        k = 0
        while k < n:
            if not is_letter(text[k]):
                k += 1
                continue
            e = k
            while e < n and is_letter(text[e]):
                e += 1
            best, _ = self.run_digits([lower(c) for c in text[k:e]])
            for q in range(1, e - k):
                out[k + q] = 49 if best[q] & 1 else 48
            if k >= 2 and is_hyphen(text[k - 1]) and is_letter(text[k - 2]):
                out[k] = 50
            k = e
        return 1, out + [0]


# ---------------------------------------------------------------- textbook automaton in HYPDUMP form

def wide(s):
    return "".join("%04x" % c for c in s) or "-"


def canonical_automaton(pats):
    """trie of the pattern letter strings, fallback = longest proper suffix that is a node,
    pattern = digit string without leading zeros (last line wins) -- printed like HYPDUMP"""
    sp = Spec(pats)
    children = {}
    for p in sp.prefixes:
        if p:
            children.setdefault(p[:-1], []).append(p[-1])
    order = [()]
    head = 0
    while head < len(order):
        k = order[head]
        head += 1
        for c in sorted(children.get(k, [])):
            order.append(k + (c,))
    parts = []
    for k in order:
        if k in sp.patterns:
            ds = sp.patterns[k]
            z = 0
            while z < len(ds) and ds[z] == 0:
                z += 1
            pat = "p" + "".join(str(d) for d in ds[z:])
        else:
            pat = "-"
        if not k:
            fb = "^"
        else:
            fb = None
            for j in range(1, len(k) + 1):
                if k[j:] in sp.prefixes:
                    fb = wide(k[j:])
                    break
        tr = ",".join("%04x" % c for c in sorted(children.get(k, []))) or "."
        parts.append("%s %s %s %s" % (wide(k), pat, fb, tr))
    return "HD n=%d | %s" % (len(order), " | ".join(parts))


# ---------------------------------------------------------------- generators

def esc(c):
    return "\\x%04x" % c


def letter_table(lowers, upper_of, hyphens, others, include):
    """a table that defines exactly: `lowers` as lowercase letters, upper_of {U: l} as their
    uppercase forms (lower-casing to l), `hyphens` as punctuation with a `hyphen` rule,
    `others` as punctuation; then includes the dictionary."""
    out = ["space \\s 0"]
    dots = 1
    for c in lowers:
        out.append("lowercase %s %s" % (esc(c), dotstr(dots)))
        dots = dots % 255 + 1
    for u, l in sorted(upper_of.items()):
        out.append("base uppercase %s %s" % (esc(u), esc(l)))
    for c in hyphens:
        out.append("punctuation %s 36" % esc(c))
        out.append("hyphen %s 36" % esc(c))
    for c in others:
        out.append("punctuation %s %s" % (esc(c), dotstr(dots)))
        dots = dots % 255 + 1
    if include:
        out.append("include %s" % include)
    return "\n".join(out) + "\n"


def dotstr(bits):
    s = "".join(str(i + 1) for i in range(8) if bits >> i & 1)
    return s or "0"


def pattern_text(letters, digits, utf8):
    """one dictionary line for (letters, digits); zero digits are omitted"""
    parts = []
    for m in range(len(letters) + 1):
        if digits[m]:
            parts.append(bytes([48 + digits[m]]))
        if m < len(letters):
            c = letters[m]
            parts.append(chr(c).encode("utf-8") if utf8 else bytes([c]))
    return b"".join(parts)
