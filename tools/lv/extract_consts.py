"""Tie-G: constants, enum orders and small static tables, regenerated from /repo's sources on every run.

A C probe program is generated, compiled against the repo's own headers and run; the text of
`_lou_charToFallbackDots` is cut out of utils.c and compiled into the probe so that the table the
model uses is what the current source computes.  Anything that cannot be found raises."""
import os, re, subprocess, hashlib
from . import common

OUT = os.path.join(common.LEAN, "LouModel", "Gen", "Consts.lean")


def _enum_names(text, typedef_name):
    m = re.search(r"\}\s*" + re.escape(typedef_name) + r"\s*;", text)
    if not m:
        raise RuntimeError("enum %s not found" % typedef_name)
    start = text.rfind("typedef enum", 0, m.start())
    if start < 0:
        raise RuntimeError("enum %s: no typedef enum" % typedef_name)
    body = text[text.index("{", start) + 1:m.start()]
    body = re.sub(r"/\*.*?\*/", "", body, flags=re.S)
    body = re.sub(r"//[^\n]*", "", body)
    names = []
    for part in body.split(","):
        part = part.strip()
        if not part:
            continue
        nm = re.match(r"([A-Za-z_][A-Za-z0-9_]*)", part)
        if nm:
            names.append(nm.group(1))
    if not names:
        raise RuntimeError("enum %s empty" % typedef_name)
    return names


def _function_text(src, name):
    i = src.find(name + "(widechar c) {")
    if i < 0:
        raise RuntimeError("function %s not found" % name)
    j = src.index("{", i)
    depth = 0
    k = j
    while k < len(src):
        if src[k] == "{":
            depth += 1
        elif src[k] == "}":
            depth -= 1
            if depth == 0:
                break
        k += 1
    return src[j:k + 1]


def generate():
    lib = os.path.join(common.REPO, "liblouis")
    internal = open(os.path.join(lib, "internal.h")).read()
    louis_h = open(os.path.join(lib, "liblouis.h")).read()
    utils = open(os.path.join(lib, "utils.c")).read()
    opcodes = _enum_names(internal, "TranslationTableOpcode")
    attrs = _enum_names(internal, "TranslationTableCharacterAttribute")
    allocbuf = _enum_names(internal, "AllocBuf")
    passcodes = _enum_names(internal, "pass_Codes")
    emphoff = _enum_names(internal, "EmphCodeOffset")
    modes = ["noContractions", "compbrlAtCursor", "dotsIO", "compbrlLeftCursor", "ucBrl", "noUndefined", "partialTrans"]
    loglevels = ["LOU_LOG_ALL", "LOU_LOG_DEBUG", "LOU_LOG_INFO", "LOU_LOG_WARN", "LOU_LOG_ERROR", "LOU_LOG_FATAL", "LOU_LOG_OFF"]
    macros = ["HASHNUM", "MAXPASS", "MAXSTRING", "MAXPASSBUF", "MAX_EMPH_CLASSES", "MAX_MODES", "LETSIGNSIZE",
              "LETSIGNBEFORESIZE", "LETSIGNAFTERSIZE", "SEQPATTERNSIZE", "DEFAULTRULESIZE", "LOU_DOTS", "LOU_ROW_BRAILLE",
              "LOU_ENDSEGMENT", "LOU_DOT_7", "LOU_DOT_8", "NUMVAR"]
    typeforms = ["emph_1", "computer_braille", "no_translate", "no_contract"]
    body = _function_text(utils, "_lou_charToFallbackDots")
    src = ['#include "config.h"', "#include <stdio.h>", '#include "internal.h"',
           "static widechar probe_fallback(widechar c) " + body,
           "int main(void) {"]
    for grp, names in (("op", opcodes), ("attr", attrs), ("alloc", allocbuf), ("pass", passcodes), ("emphoff", emphoff),
                       ("mode", modes), ("log", loglevels), ("macro", macros), ("typeform", typeforms)):
        for n in names:
            src.append('  printf("%s %s %%llu\\n", (unsigned long long)(%s));' % (grp, n, n))
    src.append('  printf("sizeof rule %zu\\n", sizeof(TranslationTableRule));')
    src.append('  printf("sizeof char %zu\\n", sizeof(TranslationTableCharacter));')
    src.append('  printf("sizeof header %zu\\n", sizeof(TranslationTableHeader));')
    src.append('  printf("sizeof dheader %zu\\n", sizeof(DisplayTableHeader));')
    src.append('  printf("sizeof cdmap %zu\\n", sizeof(CharDotsMapping));')
    src.append('  printf("sizeof hstate %zu\\n", sizeof(HyphenationState));')
    src.append('  printf("sizeof htrans %zu\\n", sizeof(HyphenationTrans));')
    src.append('  printf("sizeof widechar %zu\\n", sizeof(widechar));')
    src.append('  printf("sizeof data %zu\\n", sizeof(TranslationTableData));')
    dm = re.search(r"dotMapping\[\]\s*=\s*\{(.*?)\};", utils, re.S)
    if not dm:
        raise RuntimeError("dotMapping not found")
    pairs = re.findall(r"\{\s*(LOU_DOT_\d+)\s*,\s*'(.)'\s*\}", dm.group(1))
    if len(pairs) < 8:
        raise RuntimeError("dotMapping entries not found")
    for nm, ch in pairs:
        src.append('  printf("dotmap %%llu %d\\n", (unsigned long long)(%s));' % (ord(ch), nm))
    src.append("  for (int c = 0; c < 256; c++) printf(\"fallback %d %u\\n\", c, (unsigned)probe_fallback((widechar)c));")
    src.append("  return 0; }")
    text = "\n".join(src) + "\n"
    d = os.path.join(common.BUILD, "probe")
    os.makedirs(d, exist_ok=True)
    key = hashlib.sha256((text + internal + louis_h).encode()).hexdigest()[:16]
    outtxt = os.path.join(d, "consts-%s.txt" % key)
    if not os.path.exists(outtxt):
        cfile = os.path.join(d, "probe.c")
        open(cfile, "w").write(text)
        r = common.sh(["clang-14", "-O0", "-DHAVE_CONFIG_H", "-I" + lib, "-I" + os.path.join(common.REPO, "gnulib"),
                       "-Wno-everything", cfile, "-o", os.path.join(d, "probe")])
        if r.returncode != 0:
            raise RuntimeError("constant probe does not compile: " + r.stdout[-1500:])
        r = subprocess.run([os.path.join(d, "probe")], stdout=subprocess.PIPE, text=True)
        if r.returncode != 0:
            raise RuntimeError("constant probe failed")
        open(outtxt, "w").write(r.stdout)
    vals = {}
    sizes = {}
    fallback = [None] * 256
    dotmap = []
    order = {}
    for line in open(outtxt):
        p = line.split()
        if p[0] == "dotmap":
            dotmap.append((int(p[1]), int(p[2])))
        elif p[0] == "fallback":
            fallback[int(p[1])] = int(p[2])
        elif p[0] == "sizeof":
            sizes[p[1]] = int(p[2])
        else:
            vals.setdefault(p[0], {})[p[1]] = int(p[2])
            order.setdefault(p[0], []).append(p[1])
    if None in fallback:
        raise RuntimeError("fallback table incomplete")
    L = ["/- GENERATED by tools/lv/extract_consts.py from /repo/liblouis/{internal.h,liblouis.h,utils.c}. Do not edit. -/",
         "namespace Lou.Gen", ""]
    seen = set()
    for grp in ("macro", "op", "attr", "alloc", "pass", "emphoff", "mode", "log", "typeform"):
        for n in order[grp]:
            if n in seen:
                continue
            seen.add(n)
            L.append("def %s : Nat := %d" % (n, vals[grp][n]))
        L.append("")
    L.append("/-- the opcode enumerators in declaration order -/")
    L.append("def opcodeOrder : List (String × Nat) := [" + ", ".join('("%s", %d)' % (n, vals["op"][n]) for n in order["op"]) + "]")
    L.append("def allocBufOrder : List (String × Nat) := [" + ", ".join('("%s", %d)' % (n, vals["alloc"][n]) for n in order["alloc"]) + "]")
    for k, v in sizes.items():
        L.append("def sizeof_%s : Nat := %d" % (k, v))
    L.append("")
    L.append("/-- `_lou_charToFallbackDots(c)` for c = 0..255, computed by the current source text of the function -/")
    L.append("def fallbackDots : List Nat := [" + ", ".join(str(x) for x in fallback) + "]")
    L.append("")
    L.append("/-- `dotMapping[]` of utils.c: (dot bit, character used when printing dot numbers) in table order -/")
    L.append("def dotMapping : List (Nat × Nat) := [" + ", ".join("(%d, %d)" % x for x in dotmap) + "]")
    L.append("")
    L.append("end Lou.Gen")
    new = "\n".join(L) + "\n"
    old = open(OUT).read() if os.path.exists(OUT) else None
    if new != old:
        os.makedirs(os.path.dirname(OUT), exist_ok=True)
        open(OUT, "w").write(new)


if __name__ == "__main__":
    generate()
    print(OUT)
