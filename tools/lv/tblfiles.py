"""Table files as data: include closure of shipped tables, packaging / spelling variants (C16),
line structure for mutation (C13).  Python stdlib only."""
import os, re
from . import common

TABLES = os.path.join(common.REPO, "tables")


def read_table(name):
    p = os.path.join(TABLES, os.path.basename(name))
    with open(p, "rb") as f:
        return f.read()


def split_lines(b):
    """lines without their terminators, as liblouis sees them for 8-bit files (CR dropped, LF ends)"""
    return b.replace(b"\r", b"").split(b"\n")


def includes(b):
    out = []
    for l in split_lines(b):
        t = l.split()
        if len(t) >= 2 and t[0] == b"include":
            out.append(t[1].decode("latin-1"))
    return out


def is_hyph_dict(b):
    first = split_lines(b)[0].split()
    return bool(first) and (first[0].startswith(b"ISO") or first[0].startswith(b"UTF-8"))


def closure(names):
    """{basename: bytes} of the named tables and everything they include; None when a file is missing"""
    files = {}
    todo = [os.path.basename(n) for n in names]
    while todo:
        n = todo.pop()
        if n in files:
            continue
        try:
            files[n] = read_table(n)
        except OSError:
            return None
        if not is_hyph_dict(files[n]):
            for inc in includes(files[n]):
                todo.append(os.path.basename(inc))
    return files


# ---------------------------------------------------------------- harvesting table lists from the yaml corpora

def harvest_lists():
    """every table list that tests/braille-specs/*.yaml and tests/yaml/*.yaml name with a plain
    `table:` string or flow/block list; names resolved against /repo/tables by base name"""
    import glob
    out = []
    seen = set()
    files = sorted(glob.glob(os.path.join(common.REPO, "tests", "braille-specs", "*.yaml")) +
                   glob.glob(os.path.join(common.REPO, "tests", "yaml", "*.yaml")))
    for fn in files:
        try:
            lines = open(fn, encoding="utf-8", errors="replace").read().split("\n")
        except OSError:
            continue
        i = 0
        while i < len(lines):
            m = re.match(r"^(table|display):\s*(.*?)\s*$", lines[i])
            i += 1
            if not m or m.group(1) != "table":
                continue
            v = m.group(2)
            names = None
            if v.startswith("[") and v.endswith("]"):
                names = [x.strip().strip("\"'") for x in v[1:-1].split(",")]
            elif v == "":
                names = []
                while i < len(lines) and re.match(r"^\s+-\s+\S", lines[i]):
                    names.append(lines[i].split("-", 1)[1].strip().strip("\"'"))
                    i += 1
                if not names:
                    names = None
            elif v[0] not in "|{>&*!":
                names = [x.strip() for x in v.strip("\"'").split(",")]
            if not names:
                continue
            names = [os.path.basename(n) for n in names if n]
            if not names or not all(os.path.exists(os.path.join(TABLES, n)) for n in names):
                continue
            key = ",".join(names)
            if key not in seen:
                seen.add(key)
                out.append(names)
    return out


# ---------------------------------------------------------------- variants

# opcodes whose first operand is a characters operand (parseChars) and second a dots operand (parseDots or "=")
CHARS_DOTS_OPS = {b"space", b"punctuation", b"digit", b"letter", b"lowercase", b"uppercase", b"litdigit", b"sign", b"math",
                  b"always", b"word", b"begword", b"endword", b"midword", b"begmidword", b"midendword", b"partword",
                  b"sufword", b"prfword", b"lowword", b"largesign", b"joinword", b"joinnum",
                  b"begnum", b"midnum", b"endnum", b"decpoint", b"hyphen", b"prepunc", b"postpunc", b"comp6", b"display",
                  b"repeated", b"syllable"}
# opcodes with a single dots operand
DOTS_OPS = {b"undefined", b"capsletter", b"begcapsword", b"endcapsword", b"begcaps", b"endcaps", b"letsign", b"numsign",
            b"nonumsign", b"nocontractsign", b"begcomp", b"endcomp"}
DOTS_RE = re.compile(rb"^[0-9a-fA-F]+(-[0-9a-fA-F]+)*$")


def _tok_spans(line):
    return [(m.start(), m.end()) for m in re.finditer(rb"[^\x00-\x20]+", line)]


def _opcode_index(line, spans):
    i = 0
    while i < len(spans) and line[spans[i][0]:spans[i][1]] in (b"nofor", b"noback", b"nocross"):
        i += 1
    return i


def respell_token(tok, rng, p=0.5):
    """re-spell characters of a characters operand (UTF-8 bytes) as \\xhhhh; existing escapes stay"""
    try:
        s = tok.decode("utf-8")
    except UnicodeDecodeError:
        return tok
    out = []
    i = 0
    changed = False
    while i < len(s):
        ch = s[i]
        if ch == "\\":
            n = {"x": 6, "X": 6, "y": 7, "Y": 7, "z": 10, "Z": 10}.get(s[i + 1:i + 2], 2)
            out.append(s[i:i + n])
            i += n
            continue
        if ord(ch) <= 0xffff and rng.random() < p:
            out.append("\\x%04x" % ord(ch))
            changed = True
        else:
            out.append(ch)
        i += 1
    return "".join(out).encode("utf-8") if changed else tok


def permute_dots_token(tok, rng):
    cells = tok.split(b"-")
    out = []
    for c in cells:
        l = list(c)
        rng.shuffle(l)
        out.append(bytes(l))
    return b"-".join(out)


def transform_lines(b, fn):
    """apply fn(line_bytes) -> line_bytes to every LF-terminated line, keeping the terminators"""
    parts = b.split(b"\n")
    return b"\n".join(fn(l) for l in parts)


def v_respell(b, rng):
    def f(line):
        sp = _tok_spans(line)
        i = _opcode_index(line, sp)
        if i + 1 < len(sp) and line[sp[i][0]:sp[i][1]] in CHARS_DOTS_OPS:
            a, e = sp[i + 1]
            return line[:a] + respell_token(line[a:e], rng) + line[e:]
        return line
    return transform_lines(b, f)


def v_dotsperm(b, rng):
    def f(line):
        sp = _tok_spans(line)
        i = _opcode_index(line, sp)
        if i >= len(sp):
            return line
        op = line[sp[i][0]:sp[i][1]]
        k = i + 2 if op in CHARS_DOTS_OPS else (i + 1 if op in DOTS_OPS else None)
        if k is not None and k < len(sp):
            a, e = sp[k]
            if DOTS_RE.match(line[a:e]):
                return line[:a] + permute_dots_token(line[a:e], rng) + line[e:]
        return line
    return transform_lines(b, f)


def v_crlf(b):
    return b.replace(b"\r\n", b"\n").replace(b"\n", b"\r\n")


def v_blank(b, rng):
    """extra blank / comment lines between the lines, trailing blanks and tabs behind them"""
    parts = b.split(b"\n")
    out = []
    for k, l in enumerate(parts):
        last = k == len(parts) - 1
        if rng.random() < 0.2:
            out.append(rng.choice([b"", b"   ", b"\t", b"# c16 extra comment", b"  # indented comment", b"< angle comment",
                                   b"#", b" \t \t"]))
        if not (last and l == b""):
            cr = l.endswith(b"\r")
            core = l[:-1] if cr else l
            if rng.random() < 0.3:
                core += rng.choice([b" ", b"\t", b"  \t ", b" \t"])
            l = core + (b"\r" if cr else b"")
        out.append(l)
    return b"\n".join(out)


def is_ascii(b):
    return all(c < 128 for c in b)


def v_utf16(b, le):
    s = b.decode("ascii")
    return (b"\xff\xfe" + s.encode("utf-16-le")) if le else (b"\xfe\xff" + s.encode("utf-16-be"))


def with_final_lf(b):
    return b if (b == b"" or b.endswith(b"\n")) else b + b"\n"


def flatten(name, files, depth=0):
    """one file: every `include X` line replaced by the (flattened) content of X; hyphenation
    dictionaries stay included (their first line is significant)"""
    out = []
    for l in with_final_lf(files[name]).split(b"\n")[:-1]:
        t = l.split()
        if len(t) >= 2 and t[0] == b"include" and depth < 30:
            inc = os.path.basename(t[1].decode("latin-1"))
            if inc in files and not is_hyph_dict(files[inc]):
                out.append(with_final_lf(flatten(inc, files, depth + 1))[:-1] if files[inc] else b"")
                continue
        out.append(l)
    return b"\n".join(out) + b"\n"
