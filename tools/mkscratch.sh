#!/bin/sh
# usage: tools/mkscratch.sh /tmp/m-NAME   -- a scratch git worktree of /repo that builds and tests on its own
set -e
D="$1"
git -C /repo worktree add -q "$D" HEAD
rsync -a --ignore-existing --exclude .git /repo/ "$D"/
cd "$D"
grep -rlI "/repo" --exclude=.git --exclude-dir=.git --exclude-dir=autom4te.cache . 2>/dev/null | grep -v "\.log$\|\.trs$" | xargs -r sed -i "s#/repo#$D#g"
git checkout -q -- .
find . -name "*.lo" -o -name "*.la" -o -name "*.o" | grep -v "^./gnulib" | xargs -r rm -f
rm -rf liblouis/.libs tools/.libs tests/.libs
make -j16 >/dev/null 2>&1
echo "$D ready"
