#!/bin/bash
# usage: tools/run_all.sh [tier] — runs every registered check, one line each
cd "$(dirname "$0")/.."
T=${1:-quick}
for c in C01 C02 C03 C04 C05 C06 C07 C08 C09 C10 C11 C12 C13 C14 C15 C16 C17 C18 C19 C20; do
  s=$(date +%s)
  ./check $c --tier $T > /tmp/runall-$c.log 2>&1; rc=$?
  e=$(date +%s)
  echo "$c rc=$rc $((e-s))s $(grep -c '^VIOLATION' /tmp/runall-$c.log) violations; $(grep -c '^KNOWN-FINDING' /tmp/runall-$c.log) known | $(tail -1 /tmp/runall-$c.log | cut -c1-120)"
done
