#!/usr/bin/env python3
"""tools/seedrun.py <name> [--checks C10,C02] [--tier quick] [--seeds 1,2]

Runs registered checks against /repo with the seeded change /verif/seeded/<name>/patch.diff applied
(git -C /repo apply ... ; checks ; git -C /repo checkout -- .), restores /verif/evidence afterwards and
records the outcome in /verif/seeded/<name>/meta.json under "detection".  Never commits in /repo."""
import sys, os, json, subprocess, time, re

VERIF = os.path.dirname(os.path.dirname(os.path.abspath(__file__)))
REPO = os.environ.get("VERIF_REPO", "/repo")


def sh(cmd, **kw):
    return subprocess.run(cmd, shell=True, stdout=subprocess.PIPE, stderr=subprocess.STDOUT, text=True, **kw)


def main():
    a = sys.argv[1:]
    name = a[0]
    d = os.path.join(VERIF, "seeded", name)
    meta = json.load(open(os.path.join(d, "meta.json")))
    checks = [meta["property"]]
    tier = "quick"
    seeds = ["1"]
    i = 1
    while i < len(a):
        if a[i] == "--checks":
            checks = a[i + 1].split(","); i += 2
        elif a[i] == "--tier":
            tier = a[i + 1]; i += 2
        elif a[i] == "--seeds":
            seeds = a[i + 1].split(","); i += 2
        else:
            i += 1
    st = sh("git -C %s status --porcelain --untracked-files=no" % REPO).stdout.strip()
    if st:
        print("refusing: %s has local changes:\n" % REPO + st)
        return 2
    r = sh("git -C %s apply %s" % (REPO, os.path.join(d, "patch.diff")))
    if r.returncode:
        print("patch does not apply:\n" + r.stdout)
        return 2
    det = meta.setdefault("detection", {})
    try:
        for c in checks:
            for s in seeds:
                t0 = time.time()
                env = dict(os.environ, VERIF_SEED=s)
                r = sh("./check %s --tier %s" % (c, tier), cwd=VERIF, env=env, timeout=7200)
                viol = [l for l in r.stdout.splitlines() if l.startswith("VIOLATION")]
                sig = []
                for l in viol:
                    m = re.search(r"replay=(\S+)", l)
                    if m and os.path.exists(m.group(1)):
                        try:
                            rp = json.load(open(m.group(1)))
                            sig.append(rp.get("signature") or rp.get("kind") or "")
                        except Exception:
                            pass
                tail = [l for l in r.stdout.splitlines() if re.match(r"^(C\d\d |VIOLATION|KNOWN)", l)][-6:]
                det["%s/%s/seed%s" % (c, tier, s)] = {
                    "exit": r.returncode, "violations": len(viol), "signatures": sorted(set(sig))[:6],
                    "no_failing_input": sum("no-failing-input-found" in l for l in viol),
                    "seconds": round(time.time() - t0, 1), "summary": tail}
                print("%s %s seed %s: exit %d, %d VIOLATION lines %s" % (c, tier, s, r.returncode, len(viol), sorted(set(sig))[:4]))
                for l in tail:
                    print("    " + l[:300])
    finally:
        sh("git -C %s checkout -- ." % REPO)
        sh("git checkout -- evidence", cwd=VERIF)
    meta["caught"] = any(v["exit"] != 0 for v in det.values())
    json.dump(meta, open(os.path.join(d, "meta.json"), "w"), indent=1)
    return 0


if __name__ == "__main__":
    sys.exit(main())
