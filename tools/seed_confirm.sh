#!/bin/bash
# usage: tools/seed_confirm.sh <scratch-worktree> <patch.diff> <demo.c|demo.sh> [skipsuite]
# Confirms a seeded change in a scratch worktree of /repo (never in /repo itself):
#   with the change: builds, `make -k check` has the baseline's result by test name, demo exits non-zero
#   without it:      demo exits 0
# Prints one line  CONFIRM suite=<same|DIFF|skipped> demo_mut=<rc> demo_clean=<rc>
D="$1"; P="$(readlink -f "$2")"; DEMO="$(readlink -f "$3")"; SKIP="$4"
BASE=/verif/tools/baseline_names.txt
cd "$D" || exit 2
git checkout -q -- . ;
rundemo() {
  case "$DEMO" in
    *.c) gcc -w -I"$D/liblouis" -I"$D" "$DEMO" "$D/liblouis/.libs/liblouis.a" $DEMO_LDFLAGS -o "$D/MUT/demo.bin" || return 99
         (cd "$D" && timeout 300 "$D/MUT/demo.bin" >"$D/MUT/demo.out" 2>&1); return $? ;;
    *.sh) (cd "$D" && timeout 600 bash "$DEMO" >"$D/MUT/demo.out" 2>&1); return $? ;;
  esac
}
git apply "$P" || { echo "CONFIRM apply-failed"; exit 2; }
make -j8 >"$D/MUT/make.log" 2>&1 || { echo "CONFIRM build-failed"; git checkout -q -- .; exit 2; }
WARN=$(grep -c "warning:" "$D/MUT/make.log")
SUITE=skipped
if [ -z "$SKIP" ]; then
  find tests -name "*.trs" -o -name "*.log" | grep -v "^tests/tables" | xargs -r rm -f
  make -k check -j8 >"$D/MUT/check.log" 2>&1
  grep -hE "^(PASS|FAIL|XFAIL|XPASS|ERROR|SKIP):" "$D/MUT/check.log" | sort >"$D/MUT/names.txt"
  grep -E "^# (TOTAL|PASS|FAIL|XFAIL|XPASS|ERROR)" "$D/MUT/check.log" | tr '\n' ' ' >"$D/MUT/counts.txt"
  if [ "$(cat "$D/MUT/counts.txt")" = "$(cat /verif/tools/baseline_counts.txt)" ] && diff -q "$D/MUT/names.txt" $BASE >/dev/null; then SUITE=same; else SUITE=DIFF; fi
fi
rundemo; RM=$?
cp "$D/MUT/demo.out" "$D/MUT/demo.mut.out" 2>/dev/null
git checkout -q -- .
make -j8 >/dev/null 2>&1
rundemo; RC=$?
echo "CONFIRM suite=$SUITE warnings=$WARN demo_mut=$RM demo_clean=$RC counts=$(cat "$D/MUT/counts.txt" 2>/dev/null)"
