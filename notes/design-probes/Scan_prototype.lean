namespace Scan

structure S where
  inpos : Int
  outpos : Int
  op : Int → Int

def clamp0 (x : Int) : Int := if x < 0 then 0 else x

theorem clamp0_mono {a b : Int} (h : a ≤ b) : clamp0 a ≤ clamp0 b := by
  unfold clamp0; split <;> split <;> omega
theorem clamp0_nonneg (a : Int) : 0 ≤ clamp0 a := by unfold clamp0; split <;> omega
theorem clamp0_of_nonneg {a : Int} (h : 0 ≤ a) : clamp0 a = a := by unfold clamp0; split <;> omega

/-- one iteration of the `for (k…)` loop at lou_translateString.c:1370-1378 -/
def stepK (inlen : Int) (st : S) (k : Int) (p : Int) : S :=
  if p > st.inpos then
    { inpos := p, outpos := k,
      op := fun i => if st.inpos ≤ i ∧ i < p ∧ 0 ≤ i ∧ i < inlen then clamp0 st.outpos else st.op i }
  else st

def scanFrom (inlen : Int) : S → Int → List Int → S
  | st, _, [] => st
  | st, k, p :: ps => scanFrom inlen (stepK inlen st k p) (k + 1) ps

def init : S := { inpos := -1, outpos := -1, op := fun _ => -1 }

def finish (inlen : Int) (st : S) : Int → Int :=
  let ip := if st.inpos < 0 then 0 else st.inpos
  fun i => if ip ≤ i ∧ i < inlen then st.outpos else st.op i

def outputPos (inlen : Int) (pm : List Int) : Int → Int :=
  finish inlen (scanFrom inlen init 0 pm)

structure Inv (inlen : Int) (st : S) (k : Int) : Prop where
  ip : -1 ≤ st.inpos
  o1 : -1 ≤ st.outpos
  o2 : st.outpos < k
  link : 0 ≤ st.inpos → 0 ≤ st.outpos
  rng : ∀ i, 0 ≤ i → i < st.inpos → i < inlen → 0 ≤ st.op i ∧ st.op i ≤ clamp0 st.outpos
  mono : ∀ i j, 0 ≤ i → i ≤ j → j < st.inpos → j < inlen → st.op i ≤ st.op j

theorem inv_init (inlen : Int) : Inv inlen init 0 := by
  constructor <;> simp [init] <;> intros <;> omega

theorem inv_step (inlen : Int) (st : S) (k p : Int) (hk : 0 ≤ k) (h : Inv inlen st k) :
    Inv inlen (stepK inlen st k p) (k + 1) := by
  unfold stepK
  split
  next hp =>
    have hc : clamp0 st.outpos ≤ k := by unfold clamp0; split <;> have := h.o2 <;> omega
    have hc0 : 0 ≤ clamp0 st.outpos := by unfold clamp0; split <;> omega
    refine ⟨?_, ?_, ?_, ?_, ?_, ?_⟩ <;> dsimp only
    · have := h.ip; omega
    · omega
    · omega
    · intro _; omega
    · intro i hi0 hip hil
      split
      · exact ⟨hc0, clamp0_mono (by have := h.o2; omega)⟩
      next hn =>
        have hlt : i < st.inpos := by omega
        have := h.rng i hi0 hlt hil
        refine ⟨this.1, ?_⟩
        have h2 := this.2
        have : clamp0 st.outpos ≤ clamp0 k := clamp0_mono (by have := h.o2; omega)
        omega
    · intro i j hi0 hij hjp hjl
      by_cases hi : st.inpos ≤ i
      · have c1 : st.inpos ≤ i ∧ i < p ∧ 0 ≤ i ∧ i < inlen := ⟨hi, by omega, hi0, by omega⟩
        have c2 : st.inpos ≤ j ∧ j < p ∧ 0 ≤ j ∧ j < inlen := ⟨by omega, hjp, by omega, hjl⟩
        rw [if_pos c1, if_pos c2]; exact Int.le_refl _
      · have hi' : i < st.inpos := by omega
        have c1 : ¬ (st.inpos ≤ i ∧ i < p ∧ 0 ≤ i ∧ i < inlen) := by omega
        rw [if_neg c1]
        by_cases hj : st.inpos ≤ j
        · have c2 : st.inpos ≤ j ∧ j < p ∧ 0 ≤ j ∧ j < inlen := ⟨hj, hjp, by omega, hjl⟩
          rw [if_pos c2]
          exact (h.rng i hi0 hi' (by omega)).2
        · have c2 : ¬ (st.inpos ≤ j ∧ j < p ∧ 0 ≤ j ∧ j < inlen) := by omega
          rw [if_neg c2]
          exact h.mono i j hi0 hij (by omega) hjl
  next hp =>
    exact { ip := h.ip, o1 := h.o1, o2 := by have := h.o2; omega, link := h.link, rng := h.rng, mono := h.mono }

theorem inv_scan (inlen : Int) (pm : List Int) : ∀ (st : S) (k : Int), 0 ≤ k → Inv inlen st k →
    Inv inlen (scanFrom inlen st k pm) (k + pm.length) := by
  induction pm with
  | nil => intro st k _ h; simpa [scanFrom] using h
  | cons p ps ih =>
    intro st k hk h
    have := ih (stepK inlen st k p) (k + 1) (by omega) (inv_step inlen st k p hk h)
    have e : k + ((p :: ps).length : Int) = k + 1 + (ps.length : Int) := by simp; omega
    rw [e]; exact this

/-- C07: the forward outputPos array is non-decreasing, for *any* posMapping -/
theorem outputPos_mono (inlen : Int) (pm : List Int) (i j : Int)
    (hi : 0 ≤ i) (hij : i ≤ j) (hj : j < inlen) :
    outputPos inlen pm i ≤ outputPos inlen pm j := by
  have h := inv_scan inlen pm init 0 (by omega) (inv_init inlen)
  unfold outputPos finish
  generalize scanFrom inlen init 0 pm = st at h
  by_cases c1 : (if st.inpos < 0 then 0 else st.inpos) ≤ i
  · have c2 : (if st.inpos < 0 then 0 else st.inpos) ≤ j := by omega
    simp [c1, c2, hj, (by omega : i < inlen)]
  · by_cases c2 : (if st.inpos < 0 then 0 else st.inpos) ≤ j
    · simp only [c1, c2, hj, false_and, true_and, if_false, if_true]
      have hi' : i < st.inpos := by split at c1 <;> omega
      have := (h.rng i hi hi' (by omega)).2
      have := h.link (by omega)
      rw [clamp0_of_nonneg this] at *; assumption
    · simp only [c1, c2, false_and, if_false]
      have hj' : j < st.inpos := by split at c2 <;> omega
      exact h.mono i j hi hij hj' hj

end Scan
