#!/bin/sh
# Build the framework from files on disk only (offline): Lean model + proofs + model driver,
# and the sanitizer harness from /repo's working tree.
set -e
cd "$(dirname "$0")"
python3 -c "
import sys; sys.path.insert(0,'tools')
from lv import extract; extract.generate()
"
(cd lean && lake build LouModel LouProofs loumodel)
python3 -c "
import sys; sys.path.insert(0,'tools')
from lv import common; print(common.build_harness())
"
