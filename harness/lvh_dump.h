/* lvh_dump.h -- canonical, offset-free dump of a compiled table (DUMP op) and of a
 * display table (DISPDUMP op), and the raw object list for the C12 checker (RAWDUMP).
 *
 * DUMP <list>  prints one line:
 *   T <numPasses> <corrections> <finalized> <usesSequences> <usesNumericMode> <capsNoCont> <syllables>
 *     <undefined> <letterSign> <numberSign> <noContractSign> <noNumberSign> <begComp> <endComp> <hyph 0|1>
 *     <ruleCounter>
 *   | E <class> <slot> <rule>            emphRules[class][slot] (only non-zero)
 *   | R <index> <opcode> <chars> <dots> <after> <before> <nocross> <hasPatterns>
 *   | C <value> <attrs> <mode> <def> <comp> <base> <chain of rule indices via charsnext>   (in bucket order)
 *   | D <value> <attrs> <def> <chain of rule indices via dotsnext>
 *   | F <hash> <chain>    forRules bucket        | B <hash> <chain>   backRules bucket
 *   | FP <pass> <chain>   forPassRules[pass]     | BP <pass> <chain>  backPassRules[pass]
 * Rules are identified by their `index` (sequence number within the table); -1 = null offset.
 * Every rule reachable from any chain / slot is listed once under R, sorted by index. */

#define DUMP_MAXRULES 200000

static const TranslationTableRule **dumpRules;
static int dumpNRules;

static int
ruleIdx(const TranslationTableHeader *t, TranslationTableOffset off) {
	const TranslationTableRule *r;
	int i;
	if (!off) return -1;
	r = (const TranslationTableRule *)&t->ruleArea[off];
	for (i = 0; i < dumpNRules; i++)
		if (dumpRules[i] == r) return r->index;
	if (dumpNRules < DUMP_MAXRULES) dumpRules[dumpNRules++] = r;
	return r->index;
}

static void
printChain(const TranslationTableHeader *t, TranslationTableOffset off, int viaDots) {
	int first = 1, guard = 0;
	if (!off) {
		printf(".");
		return;
	}
	while (off && guard++ < 100000) {
		const TranslationTableRule *r = (const TranslationTableRule *)&t->ruleArea[off];
		printf(first ? "%d" : ",%d", ruleIdx(t, off));
		first = 0;
		off = viaDots ? r->dotsnext : r->charsnext;
	}
	if (off) printf(",LOOP");
}

static int
cmpRuleIdx(const void *a, const void *b) {
	const TranslationTableRule *x = *(const TranslationTableRule *const *)a;
	const TranslationTableRule *y = *(const TranslationTableRule *const *)b;
	return (x->index > y->index) - (x->index < y->index);
}

static void
dumpTable(const TranslationTableHeader *t) {
	int i, k;
	/* two phases: first print everything that references rules into a memory stream so
	 * that the rule set is known, then print T, R records, then the buffered part */
	char *buf = NULL;
	size_t blen = 0;
	FILE *mem = open_memstream(&buf, &blen);
	FILE *saved = stdout;
	dumpRules = malloc(sizeof(*dumpRules) * DUMP_MAXRULES);
	dumpNRules = 0;
	stdout = mem;
	for (i = 0; i < MAX_EMPH_CLASSES + MAX_MODES; i++)
		for (k = 0; k < 9; k++)
			if (t->emphRules[i][k]) {
				if (k == lenPhraseOffset) /* holds a number, not an offset */
					printf(" | E %d %d n%u", i, k, t->emphRules[i][k]);
				else
					printf(" | E %d %d %d", i, k, ruleIdx(t, t->emphRules[i][k]));
			}
	for (i = 0; i < HASHNUM; i++) {
		TranslationTableOffset off = t->characters[i];
		while (off) {
			const TranslationTableCharacter *c =
					(const TranslationTableCharacter *)&t->ruleArea[off];
			printf(" | C %04x %llx %llx %d %d ", c->value, (unsigned long long)c->attributes,
					(unsigned long long)c->mode, ruleIdx(t, c->definitionRule),
					ruleIdx(t, c->compRule));
			if (c->basechar)
				printf("%04x ",
						((const TranslationTableCharacter *)&t->ruleArea[c->basechar])->value);
			else
				printf("- ");
			printChain(t, c->otherRules, 0);
			off = c->next;
		}
	}
	for (i = 0; i < HASHNUM; i++) {
		TranslationTableOffset off = t->dots[i];
		while (off) {
			const TranslationTableCharacter *c =
					(const TranslationTableCharacter *)&t->ruleArea[off];
			printf(" | D %04x %llx %d ", c->value, (unsigned long long)c->attributes,
					ruleIdx(t, c->definitionRule));
			printChain(t, c->otherRules, 1);
			off = c->next;
		}
	}
	for (i = 0; i < HASHNUM; i++)
		if (t->forRules[i]) {
			printf(" | F %d ", i);
			printChain(t, t->forRules[i], 0);
		}
	for (i = 0; i < HASHNUM; i++)
		if (t->backRules[i]) {
			printf(" | B %d ", i);
			printChain(t, t->backRules[i], 1);
		}
	for (i = 0; i <= MAXPASS; i++)
		if (t->forPassRules[i]) {
			printf(" | FP %d ", i);
			printChain(t, t->forPassRules[i], 0);
		}
	for (i = 0; i <= MAXPASS; i++)
		if (t->backPassRules[i]) {
			printf(" | BP %d ", i);
			printChain(t, t->backPassRules[i], 1);
		}
	{
		int u = ruleIdx(t, t->undefined), ls = ruleIdx(t, t->letterSign),
			ns = ruleIdx(t, t->numberSign), nc = ruleIdx(t, t->noContractSign),
			nn = ruleIdx(t, t->noNumberSign), bc = ruleIdx(t, t->begComp),
			ec = ruleIdx(t, t->endComp);
		fflush(mem);
		stdout = saved;
		printf("T %d %d %d %d %d %d %d %d %d %d %d %d %d %d %d %d", t->numPasses,
				t->corrections ? 1 : 0, t->finalized, t->usesSequences, t->usesNumericMode,
				t->capsNoCont, t->syllables, u, ls, ns, nc, nn, bc, ec,
				t->hyphenStatesArray ? 1 : 0, t->ruleCounter);
	}
	fclose(mem);
	qsort(dumpRules, dumpNRules, sizeof(*dumpRules), cmpRuleIdx);
	for (i = 0; i < dumpNRules; i++) {
		const TranslationTableRule *r = dumpRules[i];
		printf(" | R %d %d ", r->index, (int)r->opcode);
		printWide(r->charsdots, r->charslen);
		printf(" ");
		printWide(r->charsdots + r->charslen, r->dotslen);
		printf(" %llx %llx %d %d", (unsigned long long)r->after, (unsigned long long)r->before,
				(int)r->nocross, r->patterns ? 1 : 0);
	}
	fputs(buf, stdout);
	free(buf);
	free(dumpRules);
	dumpRules = NULL;
}

static void
dumpDisplay(const DisplayTableHeader *d) {
	int i, first = 1;
	printf("DD c2d=");
	for (i = 0; i < HASHNUM; i++) {
		TranslationTableOffset off = d->charToDots[i];
		while (off) {
			const CharDotsMapping *m = (const CharDotsMapping *)&d->ruleArea[off];
			printf(first ? "%04x:%04x" : ",%04x:%04x", m->lookFor, m->found);
			first = 0;
			off = m->next;
		}
	}
	if (first) printf(".");
	first = 1;
	printf(" d2c=");
	for (i = 0; i < HASHNUM; i++) {
		TranslationTableOffset off = d->dotsToChar[i];
		while (off) {
			const CharDotsMapping *m = (const CharDotsMapping *)&d->ruleArea[off];
			printf(first ? "%04x:%04x" : ",%04x:%04x", m->lookFor, m->found);
			first = 0;
			off = m->next;
		}
	}
	if (first) printf(".");
}

static int
doDumpOp(char **tok, int ntok) {
	if (!strcmp(tok[0], "DUMP") && ntok >= 2) {
		const TranslationTableHeader *t;
		resetLogCounts();
		/* nofinal: dump without finalising (for run-time additions) */
		if (ntok >= 3 && !strcmp(tok[2], "nofinal")) {
			TranslationTableHeader *tt = NULL;
			extern void getTable(const char *, const char *, TranslationTableHeader **,
					DisplayTableHeader **);
			getTable(tok[1], NULL, &tt, NULL);
			t = tt;
		} else
			t = _lou_getTranslationTable(tok[1]);
		if (!t)
			printf("T null");
		else
			dumpTable(t);
		printLogSuffix();
		printf("\n");
		return 1;
	}
	if (!strcmp(tok[0], "DISPDUMP") && ntok >= 2) {
		const DisplayTableHeader *d;
		resetLogCounts();
		d = _lou_getDisplayTable(tok[1]);
		if (!d)
			printf("DD null");
		else
			dumpDisplay(d);
		printLogSuffix();
		printf("\n");
		return 1;
	}
	if (!strcmp(tok[0], "TINFO") && ntok >= 2) {
		const TranslationTableHeader *t = _lou_getTranslationTable(tok[1]);
		if (!t)
			printf("TI null\n");
		else
			printf("TI %d %d\n", t->corrections ? 1 : 0, t->numPasses);
		return 1;
	}
	return 0;
}
