/* lvh_dump.h -- canonical, offset-free dump of a compiled table (DUMP op) and of a
 * display table (DISPDUMP op), and the raw object list for the C12 checker (RAWDUMP).
 *
 * DUMP <list>  prints one line:
 *   T <numPasses> <corrections> <finalized> <usesSequences> <usesNumericMode> <capsNoCont> <syllables>
 *     <undefined> <letterSign> <numberSign> <noContractSign> <noNumberSign> <begComp> <endComp> <hyph 0|1>
 *     <ruleCounter>
 *   | E <class> <slot> <rule>            emphRules[class][slot] (only non-zero)
 *   | R <index> <opcode> <chars> <dots> <after> <before> <nocross> <hasPatterns>
 *   | C <value> <attrs> <mode> <def> <comp> <base> <chain of rule indices via charsnext>   (in bucket order)
 *   | D <value> <attrs> <def> <chain of rule indices via dotsnext>
 *   | F <hash> <chain>    forRules bucket        | B <hash> <chain>   backRules bucket
 *   | FP <pass> <chain>   forPassRules[pass]     | BP <pass> <chain>  backPassRules[pass]
 * Rules are identified by their `index` (sequence number within the table); -1 = null offset.
 * In the byte-code of a multipass rule (the <dots> of its R record) the two words behind a swap / grouping
 * instruction hold the index of the rule referred to (high word, low word) instead of its arena offset.
 * Every rule reachable from any chain / slot is listed once under R, sorted by index. */

#include <stddef.h>
#define DUMP_MAXRULES 200000

static const TranslationTableRule **dumpRules;
static int dumpNRules;

static int
ruleIdx(const TranslationTableHeader *t, TranslationTableOffset off) {
	const TranslationTableRule *r;
	int i;
	if (!off) return -1;
	r = (const TranslationTableRule *)&t->ruleArea[off];
	for (i = 0; i < dumpNRules; i++)
		if (dumpRules[i] == r) return r->index;
	if (dumpNRules < DUMP_MAXRULES) dumpRules[dumpNRules++] = r;
	return r->index;
}

static void
printChain(const TranslationTableHeader *t, TranslationTableOffset off, int viaDots) {
	int first = 1, guard = 0;
	if (!off) {
		printf(".");
		return;
	}
	while (off && guard++ < 100000) {
		const TranslationTableRule *r = (const TranslationTableRule *)&t->ruleArea[off];
		printf(first ? "%d" : ",%d", ruleIdx(t, off));
		first = 0;
		off = viaDots ? r->dotsnext : r->charsnext;
	}
	if (off) printf(",LOOP");
}

static int
isPassRule(const TranslationTableRule *r) {
	return r->opcode == CTO_Context || r->opcode == CTO_Correct || r->opcode == CTO_Pass2 ||
			r->opcode == CTO_Pass3 || r->opcode == CTO_Pass4;
}

/* walks the byte-code of a multipass rule.  The two words behind a swap / grouping instruction hold the arena
 * offset of the rule they refer to; with `copy` != NULL they are replaced by that rule's INDEX (high word, low
 * word), so that the dump stays offset-free; in any case the referenced rule is registered for the R records. */
static void
walkPassProgram(const TranslationTableHeader *t, const TranslationTableRule *r, widechar *copy) {
	const widechar *ins = r->charsdots + r->charslen;
	int n = r->dotslen, ic = 0, inAction = 0;
	while (ic < n) {
		int ref = 0, len = 1;
		switch (ins[ic]) {
		case pass_string:
		case pass_dots:
			len = 2 + (ic + 1 < n ? ins[ic + 1] : 0);
			break;
		case pass_lookback:
			len = 2;
			break;
		case pass_attributes:
			len = 7;
			break;
		case pass_swap:
			ref = 1;
			len = inAction ? 3 : 5;
			break;
		case pass_groupstart:
		case pass_groupend:
		case pass_groupreplace:
			ref = 1;
			len = 3;
			break;
		case pass_eq:
		case pass_lt:
		case pass_gt:
		case pass_lteq:
		case pass_gteq:
			len = 3;
			break;
		case pass_hyphen:
		case pass_plus:
			len = inAction ? 2 : 1;
			break;
		case pass_endTest:
			inAction = 1;
			break;
		default:
			break;
		}
		if (ref && ic + 2 < n) {
			TranslationTableOffset off = ((TranslationTableOffset)ins[ic + 1] << 16) | ins[ic + 2];
			int idx = off ? ruleIdx(t, off) : 0;
			if (copy) {
				copy[ic + 1] = (widechar)((idx >> 16) & 0xffff);
				copy[ic + 2] = (widechar)(idx & 0xffff);
			}
		}
		ic += len;
	}
}

static int
cmpRuleIdx(const void *a, const void *b) {
	const TranslationTableRule *x = *(const TranslationTableRule *const *)a;
	const TranslationTableRule *y = *(const TranslationTableRule *const *)b;
	return (x->index > y->index) - (x->index < y->index);
}

static void
dumpTable(const TranslationTableHeader *t) {
	int i, k;
	/* two phases: first print everything that references rules into a memory stream so
	 * that the rule set is known, then print T, R records, then the buffered part */
	char *buf = NULL;
	size_t blen = 0;
	FILE *mem = open_memstream(&buf, &blen);
	FILE *saved = stdout;
	dumpRules = malloc(sizeof(*dumpRules) * DUMP_MAXRULES);
	dumpNRules = 0;
	stdout = mem;
	for (i = 0; i < MAX_EMPH_CLASSES + MAX_MODES; i++)
		for (k = 0; k < 9; k++)
			if (t->emphRules[i][k]) {
				if (k == lenPhraseOffset) /* holds a number, not an offset */
					printf(" | E %d %d n%u", i, k, t->emphRules[i][k]);
				else
					printf(" | E %d %d %d", i, k, ruleIdx(t, t->emphRules[i][k]));
			}
	for (i = 0; i < HASHNUM; i++) {
		TranslationTableOffset off = t->characters[i];
		while (off) {
			const TranslationTableCharacter *c =
					(const TranslationTableCharacter *)&t->ruleArea[off];
			printf(" | C %04x %llx %llx %d %d ", c->value, (unsigned long long)c->attributes,
					(unsigned long long)c->mode, ruleIdx(t, c->definitionRule),
					ruleIdx(t, c->compRule));
			if (c->basechar)
				printf("%04x ",
						((const TranslationTableCharacter *)&t->ruleArea[c->basechar])->value);
			else
				printf("- ");
			printChain(t, c->otherRules, 0);
			off = c->next;
		}
	}
	for (i = 0; i < HASHNUM; i++) {
		TranslationTableOffset off = t->dots[i];
		while (off) {
			const TranslationTableCharacter *c =
					(const TranslationTableCharacter *)&t->ruleArea[off];
			printf(" | D %04x %llx %d ", c->value, (unsigned long long)c->attributes,
					ruleIdx(t, c->definitionRule));
			printChain(t, c->otherRules, 1);
			off = c->next;
		}
	}
	for (i = 0; i < HASHNUM; i++)
		if (t->forRules[i]) {
			printf(" | F %d ", i);
			printChain(t, t->forRules[i], 0);
		}
	for (i = 0; i < HASHNUM; i++)
		if (t->backRules[i]) {
			printf(" | B %d ", i);
			printChain(t, t->backRules[i], 1);
		}
	for (i = 0; i <= MAXPASS; i++)
		if (t->forPassRules[i]) {
			printf(" | FP %d ", i);
			printChain(t, t->forPassRules[i], 0);
		}
	for (i = 0; i <= MAXPASS; i++)
		if (t->backPassRules[i]) {
			printf(" | BP %d ", i);
			printChain(t, t->backPassRules[i], 1);
		}
	{
		int u = ruleIdx(t, t->undefined), ls = ruleIdx(t, t->letterSign),
			ns = ruleIdx(t, t->numberSign), nc = ruleIdx(t, t->noContractSign),
			nn = ruleIdx(t, t->noNumberSign), bc = ruleIdx(t, t->begComp),
			ec = ruleIdx(t, t->endComp);
		fflush(mem);
		stdout = saved;
		printf("T %d %d %d %d %d %d %d %d %d %d %d %d %d %d %d %d", t->numPasses,
				t->corrections ? 1 : 0, t->finalized, t->usesSequences, t->usesNumericMode,
				t->capsNoCont, t->syllables, u, ls, ns, nc, nn, bc, ec,
				t->hyphenStatesArray ? 1 : 0, t->ruleCounter);
	}
	fclose(mem);
	/* rules that are only referred to from the byte-code of multipass rules (swap classes, groupings) */
	for (i = 0; i < dumpNRules; i++)
		if (isPassRule(dumpRules[i])) walkPassProgram(t, dumpRules[i], NULL);
	qsort(dumpRules, dumpNRules, sizeof(*dumpRules), cmpRuleIdx);
	for (i = 0; i < dumpNRules; i++) {
		const TranslationTableRule *r = dumpRules[i];
		printf(" | R %d %d ", r->index, (int)r->opcode);
		printWide(r->charsdots, r->charslen);
		printf(" ");
		if (isPassRule(r) && r->dotslen > 0) {
			widechar *copy = malloc(sizeof(widechar) * r->dotslen);
			memcpy(copy, r->charsdots + r->charslen, sizeof(widechar) * r->dotslen);
			walkPassProgram(t, r, copy);
			printWide(copy, r->dotslen);
			free(copy);
		} else
			printWide(r->charsdots + r->charslen, r->dotslen);
		printf(" %llx %llx %d %d", (unsigned long long)r->after, (unsigned long long)r->before,
				(int)r->nocross, r->patterns ? 1 : 0);
	}
	fputs(buf, stdout);
	free(buf);
	free(dumpRules);
	dumpRules = NULL;
}

static void
dumpDisplay(const DisplayTableHeader *d) {
	int i, first = 1;
	printf("DD c2d=");
	for (i = 0; i < HASHNUM; i++) {
		TranslationTableOffset off = d->charToDots[i];
		while (off) {
			const CharDotsMapping *m = (const CharDotsMapping *)&d->ruleArea[off];
			printf(first ? "%04x:%04x" : ",%04x:%04x", m->lookFor, m->found);
			first = 0;
			off = m->next;
		}
	}
	if (first) printf(".");
	first = 1;
	printf(" d2c=");
	for (i = 0; i < HASHNUM; i++) {
		TranslationTableOffset off = d->dotsToChar[i];
		while (off) {
			const CharDotsMapping *m = (const CharDotsMapping *)&d->ruleArea[off];
			printf(first ? "%04x:%04x" : ",%04x:%04x", m->lookFor, m->found);
			first = 0;
			off = m->next;
		}
	}
	if (first) printf(".");
}

/* ------------------------------------------------------------------ RAWDUMP (C12)
 * RAWDUMP <list> [nofinal]  prints one line, two parts separated by " || ":
 *   RAW t <sizeof(TranslationTableHeader)> <bytesUsed> <tableSize> <ruleBaseSize> <sizeof char record>
 *   RAW d <sizeof(DisplayTableHeader)> <bytesUsed> <tableSize> 0 <sizeof(CharDotsMapping)>
 * each followed by records
 *   | r <kind> <offset> <needed bytes> <opcode (rule kinds) | 0> <expect: 0 any, 1 grouping rule, 2 swap rule> <via>
 *       one record per stored reference (non-null offset field of the image; embedded pass
 *       references also when 0).  kind: rule char dots pattern hstates htrans hpattern cdmap.
 *       <offset> is in TranslationTableOffset units (8 bytes from ruleArea), <needed> is what the
 *       layout of the designated object needs, computed from the object's own contents.
 *   | L <value> <value>      character record `value` has `linked` = the record of the second value
 *   | X <what> <detail...>   anomaly met while walking (reference outside the used part, chain that
 *       does not end, pass program that does not decode, pattern node / hyphenation state out of range)
 * The walk follows exactly the references DUMP follows, plus pass programs, patterns, hyphenation
 * and the display maps.  Every read is bounds-checked against the used part of the image first. */

static const unsigned char *rawBase;   /* start of the image (header) */
static unsigned int rawHdr, rawUsed;
static unsigned int rawArea;           /* offsetof(header, ruleArea) = sizeof(header) - 8: ruleArea[0] is the
                                        * last 8 bytes of the header, so the object with offset `off` starts at
                                        * byte sizeof(header) - 8 + 8*off and the allocator's bytesUsed runs 8
                                        * bytes ahead of the real end of the used part.  Bounds are checked in
                                        * the allocator's own coordinates (sizeof(header) + 8*off .. bytesUsed). */
static unsigned char *rawSeen;         /* per offset unit: rule already decoded */

static int
rawIn(TranslationTableOffset off, unsigned int bytes) {
	unsigned long long start = (unsigned long long)rawHdr + 8ULL * off;
	return off != 0 && start + bytes <= rawUsed;
}

static const void *
rawAt(TranslationTableOffset off) {
	return rawBase + rawArea + 8UL * off;
}

#define RULEBASE ((int)(sizeof(TranslationTableRule) - DEFAULTRULESIZE * CHARSIZE))

static void
rawRef(const char *kind, TranslationTableOffset off, long needed, int opcode, int expect,
		const char *via) {
	printf(" | r %s %u %ld %d %d %s", kind, off, needed, opcode, expect, via);
}

static void rawRule(TranslationTableOffset off, int expect, const char *via);

static void
rawPassProgram(TranslationTableOffset owner, const TranslationTableRule *r) {
	const widechar *ins = r->charsdots + r->charslen;
	int n = r->dotslen, ic = 0, action = 0;
	while (ic < n) {
		widechar op = ins[ic];
		int len = 0, isref = 0, expect = 0;
		if (!action) {
			switch (op) {
			case pass_first:
			case pass_last:
			case pass_not:
			case pass_search:
			case pass_startReplace:
			case pass_endReplace:
				len = 1;
				break;
			case pass_endTest:
				len = 1;
				break;
			case pass_lookback:
				len = 2;
				break;
			case pass_string:
			case pass_dots:
				len = (ic + 1 < n) ? ins[ic + 1] + 2 : n + 1;
				break;
			case pass_attributes:
				len = 7;
				break;
			case pass_groupstart:
			case pass_groupend:
				len = 3;
				isref = 1;
				expect = 1;
				break;
			case pass_swap:
				len = 5;
				isref = 1;
				expect = 2;
				break;
			case pass_eq:
			case pass_lt:
			case pass_gt:
			case pass_lteq:
			case pass_gteq:
				len = 3;
				break;
			default:
				len = 0;
			}
		} else {
			switch (op) {
			case pass_string:
			case pass_dots:
				len = (ic + 1 < n) ? ins[ic + 1] + 2 : n + 1;
				break;
			case pass_eq:
				len = 3;
				break;
			case pass_plus:
			case pass_hyphen:
				len = 2;
				break;
			case pass_copy:
			case pass_omit:
				len = 1;
				break;
			case pass_groupreplace:
			case pass_groupstart:
			case pass_groupend:
				len = 3;
				isref = 1;
				expect = 1;
				break;
			case pass_swap:
				len = 3;
				isref = 1;
				expect = 2;
				break;
			default:
				len = 0;
			}
		}
		if (len == 0 || ic + len > n) {
			printf(" | X passdecode %u %d %d %d", owner, action, ic, (int)op);
			return;
		}
		if (isref) {
			TranslationTableOffset target = ((TranslationTableOffset)ins[ic + 1] << 16) | ins[ic + 2];
			rawRule(target, expect, expect == 1 ? "passref:grouping" : "passref:swap");
		}
		if (!action && op == pass_endTest) action = 1;
		ic += len;
	}
	/* a program without pass_endTest is possible (run-time addition of `context "a @1`: the unterminated
	 * string swallows the separator; the error is logged but the rule is added) and harmless to the
	 * image: passDoTest leaves its loop at dotslen */
}

static void
rawPattern(TranslationTableOffset owner, TranslationTableOffset off) {
	/* patterns[0] = index of the second expression; each expression starts with its length */
	const widechar *p;
	unsigned int mrk, len2, total, k;
	if (!rawIn(off, 2 * sizeof(widechar))) {
		printf(" | X oob pattern %u rule:patterns", off);
		rawRef("pattern", off, 0, 0, 0, "rule:patterns");
		return;
	}
	p = rawAt(off);
	mrk = p[0];
	if (mrk < 1 || !rawIn(off, (mrk + 1) * sizeof(widechar))) {
		printf(" | X oob pattern %u rule:patterns:mark", off);
		rawRef("pattern", off, 2L * (mrk + 1), 0, 0, "rule:patterns");
		return;
	}
	len2 = p[mrk];
	total = mrk + len2;
	rawRef("pattern", off, 2L * total, 0, 0, "rule:patterns");
	if (!rawIn(off, total * sizeof(widechar))) {
		printf(" | X oob pattern %u rule:patterns:len", off);
		return;
	}
	/* node links of both expressions stay inside their expression */
	for (k = 0; k < 2; k++) {
		const widechar *e = k ? p + mrk : p + 1;
		unsigned int elen = k ? len2 : mrk - 1;
		unsigned int at = 2, guard = 0;
		if (elen != e[0] || elen < 5) {
			printf(" | X patternnode %u %u len %u %u", owner, k, elen, (unsigned)e[0]);
			continue;
		}
		/* linear scan of the top-level list through NXT */
		while (guard++ < elen) {
			if (at + 3 > elen) {
				printf(" | X patternnode %u %u at %u %u", owner, k, at, elen);
				break;
			}
			if (e[at] == 0xffff) break; /* PTN_END */
			at = e[at + 2];
		}
		if (guard > elen) printf(" | X patternnode %u %u loop %u", owner, k, elen);
	}
}

static void
rawRule(TranslationTableOffset off, int expect, const char *via) {
	const TranslationTableRule *r;
	long needed;
	if (off == 0) { /* only embedded pass references are reported when null */
		rawRef("rule", 0, 0, 0, expect, via);
		return;
	}
	if (!rawIn(off, RULEBASE)) {
		printf(" | X oob rule %u %s", off, via);
		rawRef("rule", off, RULEBASE, 0, expect, via);
		return;
	}
	r = rawAt(off);
	needed = RULEBASE + (long)CHARSIZE * ((long)r->charslen + (long)r->dotslen);
	rawRef("rule", off, needed, (int)r->opcode, expect, via);
	if (r->charslen < 0 || r->dotslen < 0 || !rawIn(off, needed)) {
		printf(" | X oob rule %u %s:body", off, via);
		return;
	}
	if (rawSeen[off]) return;
	rawSeen[off] = 1;
	if (r->patterns) rawPattern(off, r->patterns);
	if (r->opcode >= CTO_Context && r->opcode <= CTO_Pass4) rawPassProgram(off, r);
}

/* walk a rule chain; returns nothing, reports a chain that does not end */
static void
rawChain(TranslationTableOffset off, int viaDots, const char *headVia) {
	unsigned int guard = 0, limit = rawUsed / 8 + 2;
	const char *via = headVia;
	while (off) {
		const TranslationTableRule *r;
		rawRule(off, 0, via);
		if (!rawIn(off, RULEBASE)) return;
		if (++guard > limit) {
			printf(" | X loop rulechain %u %s", off, headVia);
			return;
		}
		r = rawAt(off);
		off = viaDots ? r->dotsnext : r->charsnext;
		via = viaDots ? "next:dots" : "next:chars";
	}
}

static void
rawCharBuckets(const TranslationTableOffset *buckets, int isDots) {
	int i;
	const char *kind = isDots ? "dots" : "char";
	for (i = 0; i < HASHNUM; i++) {
		TranslationTableOffset off = buckets[i];
		const char *via = isDots ? "bucket:dots" : "bucket:chars";
		unsigned int guard = 0, limit = rawUsed / 8 + 2;
		while (off) {
			const TranslationTableCharacter *c;
			rawRef(kind, off, sizeof(TranslationTableCharacter), 0, 0, via);
			if (!rawIn(off, sizeof(TranslationTableCharacter))) {
				printf(" | X oob %s %u %s", kind, off, via);
				break;
			}
			if (++guard > limit) {
				printf(" | X loop charchain %u %s", off, via);
				break;
			}
			c = rawAt(off);
			if (c->definitionRule) rawRule(c->definitionRule, 0, isDots ? "dots:def" : "char:def");
			if (!isDots && c->compRule) rawRule(c->compRule, 0, "char:comp");
			if (!isDots && c->basechar)
				rawRef("char", c->basechar, sizeof(TranslationTableCharacter), 0, 0, "char:base");
			if (!isDots && c->linked) {
				rawRef("char", c->linked, sizeof(TranslationTableCharacter), 0, 0, "char:linked");
				/* L <value> <value of the linked character>: what toLowercase walks (DUMP omits it) */
				if (rawIn(c->linked, sizeof(TranslationTableCharacter)))
					printf(" | L %04x %04x", c->value,
							((const TranslationTableCharacter *)rawAt(c->linked))->value);
			}
			rawChain(c->otherRules, isDots, isDots ? "dots:other" : "char:other");
			off = c->next;
			via = isDots ? "next:dotsrec" : "next:charrec";
		}
	}
}

static void
rawHyphenation(const TranslationTableHeader *t) {
	TranslationTableOffset base = t->hyphenStatesArray;
	unsigned int n = 1, i;
	const HyphenationState *st;
	if (!base) return;
	if (!rawIn(base, sizeof(HyphenationState))) {
		printf(" | X oob hstates %u hyph:states", base);
		rawRef("hstates", base, sizeof(HyphenationState), 0, 0, "hyph:states");
		return;
	}
	st = rawAt(base);
	/* every state is reached from state 0 through transitions (the states form a trie) */
	for (i = 0; i < n; i++) {
		unsigned int k;
		if (!rawIn(base, (i + 1) * sizeof(HyphenationState))) {
			printf(" | X oob hstates %u hyph:states:%u", base, i);
			break;
		}
		if (st[i].hyphenPattern) {
			TranslationTableOffset po = st[i].hyphenPattern;
			if (!rawIn(po, 1)) {
				printf(" | X oob hpattern %u hyph:pattern", po);
				rawRef("hpattern", po, 1, 0, 0, "hyph:pattern");
			} else {
				const char *s = rawAt(po);
				unsigned int room = rawUsed - (rawHdr + 8 * po), l = 0;
				while (l < room && s[l]) l++;
				if (l == room) printf(" | X oob hpattern %u hyph:pattern:unterminated", po);
				rawRef("hpattern", po, (long)l + 1, 0, 0, "hyph:pattern");
			}
		}
		if (st[i].fallbackState != 0xffffffffu && st[i].fallbackState >= n &&
				!rawIn(base, ((unsigned long)st[i].fallbackState + 1) * sizeof(HyphenationState)))
			printf(" | X hstate fallback %u %u", i, st[i].fallbackState);
		if (st[i].numTrans) {
			TranslationTableOffset to = st[i].trans.offset;
			rawRef("htrans", to, (long)st[i].numTrans * sizeof(HyphenationTrans), 0, 0, "hyph:trans");
			if (!rawIn(to, st[i].numTrans * sizeof(HyphenationTrans))) {
				printf(" | X oob htrans %u hyph:trans", to);
				continue;
			}
			{
				const HyphenationTrans *tr = rawAt(to);
				for (k = 0; k < st[i].numTrans; k++)
					if (tr[k].newState >= n) {
						if (tr[k].newState > rawUsed / sizeof(HyphenationState)) {
							printf(" | X hstate newstate %u %u", i, tr[k].newState);
							continue;
						}
						n = tr[k].newState + 1;
					}
			}
		}
	}
	for (i = 0; i < n && rawIn(base, (i + 1) * sizeof(HyphenationState)); i++)
		if (st[i].fallbackState != 0xffffffffu && st[i].fallbackState >= n)
			printf(" | X hstate fallback %u %u", i, st[i].fallbackState);
	rawRef("hstates", base, (long)n * sizeof(HyphenationState), 0, 0, "hyph:states");
}

static void
rawDumpTable(const TranslationTableHeader *t) {
	int i, k;
	rawBase = (const unsigned char *)t;
	rawHdr = sizeof(TranslationTableHeader);
	rawArea = offsetof(TranslationTableHeader, ruleArea);
	rawUsed = t->bytesUsed;
	rawSeen = calloc(t->tableSize / 8 + 2, 1);
	printf("RAW t %u %u %u %d %d", rawHdr, t->bytesUsed, t->tableSize, RULEBASE,
			(int)sizeof(TranslationTableCharacter));
	if (t->bytesUsed > t->tableSize) rawUsed = t->tableSize;
	/* an indicator slot designates a rule of exactly the opcode the slot is for (expect = 1000 + opcode) */
	for (i = 0; i < MAX_EMPH_CLASSES + MAX_MODES; i++)
		for (k = 0; k < 9; k++)
			if (t->emphRules[i][k] && k != lenPhraseOffset) {
				static const int emphOp[8] = { CTO_BegEmphPhrase, CTO_EndEmphPhrase, CTO_EndEmphPhrase,
					CTO_BegEmph, CTO_EndEmph, CTO_EmphLetter, CTO_BegEmphWord, CTO_EndEmphWord };
				static const int capsOp[8] = { CTO_BegCapsPhrase, CTO_EndCapsPhraseBefore,
					CTO_EndCapsPhraseAfter, CTO_BegCaps, CTO_EndCaps, CTO_CapsLetter, CTO_BegCapsWord,
					CTO_EndCapsWord };
				static const int modeOp[8] = { CTO_BegModePhrase, CTO_EndModePhrase, CTO_EndModePhrase,
					CTO_BegMode, CTO_EndMode, CTO_ModeLetter, CTO_BegModeWord, CTO_EndModeWord };
				const int *ops = i < MAX_EMPH_CLASSES ? emphOp : i == MAX_EMPH_CLASSES ? capsOp : modeOp;
				rawRule(t->emphRules[i][k], 1000 + ops[k], "slot:emph");
			}
	rawCharBuckets(t->characters, 0);
	rawCharBuckets(t->dots, 1);
	for (i = 0; i < HASHNUM; i++) rawChain(t->forRules[i], 0, "bucket:for");
	for (i = 0; i < HASHNUM; i++) rawChain(t->backRules[i], 1, "bucket:back");
	for (i = 0; i <= MAXPASS; i++) rawChain(t->forPassRules[i], 0, "bucket:forpass");
	for (i = 0; i <= MAXPASS; i++) rawChain(t->backPassRules[i], 1, "bucket:backpass");
	if (t->undefined) rawRule(t->undefined, 1000 + CTO_Undefined, "slot:undefined");
	if (t->letterSign) rawRule(t->letterSign, 1000 + CTO_LetterSign, "slot:letterSign");
	if (t->numberSign) rawRule(t->numberSign, 1000 + CTO_NumberSign, "slot:numberSign");
	if (t->noContractSign) rawRule(t->noContractSign, 1000 + CTO_NoContractSign, "slot:noContractSign");
	if (t->noNumberSign) rawRule(t->noNumberSign, 1000 + CTO_NoNumberSign, "slot:noNumberSign");
	if (t->begComp) rawRule(t->begComp, 1000 + CTO_BegComp, "slot:begComp");
	if (t->endComp) rawRule(t->endComp, 1000 + CTO_EndComp, "slot:endComp");
	if (t->capsNoCont) rawRule((TranslationTableOffset)t->capsNoCont, 0, "slot:capsNoCont");
	rawHyphenation(t);
	free(rawSeen);
	rawSeen = NULL;
}

static void
rawDumpDisplay(const DisplayTableHeader *d) {
	int i, side;
	rawBase = (const unsigned char *)d;
	rawHdr = sizeof(DisplayTableHeader);
	rawArea = offsetof(DisplayTableHeader, ruleArea);
	rawUsed = d->bytesUsed > d->tableSize ? d->tableSize : d->bytesUsed;
	printf("RAW d %u %u %u 0 %d", rawHdr, d->bytesUsed, d->tableSize, (int)sizeof(CharDotsMapping));
	for (side = 0; side < 2; side++)
		for (i = 0; i < HASHNUM; i++) {
			TranslationTableOffset off = side ? d->dotsToChar[i] : d->charToDots[i];
			const char *via = side ? "disp:d2c" : "disp:c2d";
			unsigned int guard = 0, limit = rawUsed / 8 + 2;
			while (off) {
				rawRef("cdmap", off, sizeof(CharDotsMapping), 0, 0, via);
				if (!rawIn(off, sizeof(CharDotsMapping))) {
					printf(" | X oob cdmap %u %s", off, via);
					break;
				}
				if (++guard > limit) {
					printf(" | X loop cdmapchain %u %s", off, via);
					break;
				}
				off = ((const CharDotsMapping *)rawAt(off))->next;
				via = "disp:next";
			}
		}
}

static int
doDumpOp(char **tok, int ntok) {
	if (!strcmp(tok[0], "DUMP") && ntok >= 2) {
		const TranslationTableHeader *t;
		resetLogCounts();
		/* nofinal: dump without finalising (for run-time additions) */
		if (ntok >= 3 && !strcmp(tok[2], "nofinal")) {
			TranslationTableHeader *tt = NULL;
			extern void getTable(const char *, const char *, TranslationTableHeader **,
					DisplayTableHeader **);
			getTable(tok[1], NULL, &tt, NULL);
			t = tt;
		} else
			t = _lou_getTranslationTable(tok[1]);
		if (!t)
			printf("T null");
		else
			dumpTable(t);
		printLogSuffix();
		printf("\n");
		return 1;
	}
	if (!strcmp(tok[0], "RAWDUMP") && ntok >= 2) {
		TranslationTableHeader *tt = NULL;
		DisplayTableHeader *dd = NULL;
		extern void getTable(const char *, const char *, TranslationTableHeader **,
				DisplayTableHeader **);
		resetLogCounts();
		if (ntok >= 3 && !strcmp(tok[2], "nofinal"))
			getTable(tok[1], tok[1], &tt, &dd);
		else {
			const TranslationTableHeader *ct = NULL;
			const DisplayTableHeader *cd = NULL;
			_lou_getTable(tok[1], tok[1], &ct, &cd);
			tt = (TranslationTableHeader *)ct;
			dd = (DisplayTableHeader *)cd;
		}
		if (!tt)
			printf("RAW t null");
		else
			rawDumpTable(tt);
		printf(" || ");
		if (!dd)
			printf("RAW d null");
		else
			rawDumpDisplay(dd);
		printLogSuffix();
		printf("\n");
		return 1;
	}
	if (!strcmp(tok[0], "DISPDUMP") && ntok >= 2) {
		const DisplayTableHeader *d;
		resetLogCounts();
		d = _lou_getDisplayTable(tok[1]);
		if (!d)
			printf("DD null");
		else
			dumpDisplay(d);
		printLogSuffix();
		printf("\n");
		return 1;
	}
	if (!strcmp(tok[0], "TINFO") && ntok >= 2) {
		const TranslationTableHeader *t = _lou_getTranslationTable(tok[1]);
		if (!t)
			printf("TI null\n");
		else
			printf("TI %d %d\n", t->corrections ? 1 : 0, t->numPasses);
		return 1;
	}
	return 0;
}
