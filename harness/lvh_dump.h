/* lvh_dump.h -- canonical dump of compiled tables (DUMP op). */
static int
doDumpOp(char **tok, int ntok) {
	(void)tok;
	(void)ntok;
	return 0;
}
