/* lvh_lex.h -- lexer operations (C16, C13): the exported entry points of the table reader,
 * one function per operation, for comparison with lean/LouModel/Lexer.lean.
 *
 *   READCHARS <file>        lou_readCharFromFile until EOF         -> RC <wide> e= w=
 *   READLINES <file>        _lou_getALine until it returns 0        -> LN <n> <l1>,<l2>,... e= w=
 *   PARSECHARS <bytes-hex>  _lou_extParseChars                      -> PC <ret> <wide> e= w=
 *   PARSEDOTS <bytes-hex>   _lou_extParseDots                       -> PD <ret> <wide> e= w=
 */

static int
doLexOp(char **tok, int ntok) {
	if (!strcmp(tok[0], "READCHARS") && ntok >= 2) {
		int mode = 1, ch, n = 0, cap = 1024;
		widechar *buf = malloc(cap * sizeof(widechar));
		long guard = 0;
		struct stat st;
		long size = stat(tok[1], &st) == 0 ? (long)st.st_size : 0;
		resetLogCounts();
		while ((ch = lou_readCharFromFile(tok[1], &mode)) != EOF) {
			if (n == cap) buf = realloc(buf, (cap *= 2) * sizeof(widechar));
			buf[n++] = (widechar)ch;
			if (++guard > size + 2) break;
		}
		if (guard > size + 2)
			printf("RC-RUNAWAY");
		else {
			printf("RC ");
			printWide(buf, n);
		}
		printLogSuffix();
		printf("\n");
		free(buf);
		return 1;
	}
	if (!strcmp(tok[0], "READLINES") && ntok >= 2) {
		/* set up exactly as compileFile does (l.4883-4886) */
		FileInfo *file = calloc(1, sizeof(FileInfo));
		struct stat st;
		long size = stat(tok[1], &st) == 0 ? (long)st.st_size : 0;
		long n = 0;
		size_t start;
		resetLogCounts();
		resetTrace();
		file->fileName = tok[1];
		file->encoding = noEncoding;
		file->status = 0;
		file->lineNumber = 0;
		file->in = fopen(tok[1], "rb");
		if (!file->in) {
			printf("LN-NOFILE\n");
			free(file);
			return 1;
		}
		while (_lou_getALine(file)) {
			n++;
			if (n > size + 1) break;
			trprintf(n > 1 ? "," : "");
			trWide(file->line, file->linelen);
			if (file->linelen > MAXSTRING - 1 || file->line[file->linelen] != 0 ||
					file->lineNumber != n)
				trprintf("!BADLINE(%d,%d)", file->linelen, file->lineNumber);
		}
		fclose(file->in);
		if (n > size + 1)
			printf("LN-RUNAWAY");
		else
			printf("LN %ld %s", n, n ? trbuf : ".");
		(void)start;
		printLogSuffix();
		printf("\n");
		resetTrace();
		free(file);
		return 1;
	}
	if (!strcmp(tok[0], "PARSECHARS") && ntok >= 2) {
		unsigned char *b;
		widechar *out = malloc(MAXSTRING * sizeof(widechar)); /* exactly a CharsString's capacity */
		int r;
		parseBytes(tok[1], &b);
		resetLogCounts();
		r = _lou_extParseChars((char *)b, out);
		printf("PC %d ", r);
		printWide(out, r);
		printLogSuffix();
		printf("\n");
		free(out);
		free(b);
		return 1;
	}
	if (!strcmp(tok[0], "PARSEDOTS") && ntok >= 2) {
		unsigned char *b;
		widechar *out = malloc((MAXSTRING + 1) * sizeof(widechar));
		int r;
		parseBytes(tok[1], &b);
		/* _lou_extParseDots fails whenever the compiler's static errorCount is non-zero (left over
		 * from ANY earlier failed operation) and resets it; flush it so that the answer depends on
		 * the argument only */
		_lou_extParseDots("1", out);
		resetLogCounts();
		r = _lou_extParseDots((char *)b, out);
		printf("PD %d ", r);
		printWide(out, r);
		printLogSuffix();
		printf("\n");
		free(out);
		free(b);
		return 1;
	}
	return 0;
}
