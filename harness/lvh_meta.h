/* lvh_meta.h -- metadata (C18) and resolver (C20) operations of the harness.
 * All string arguments are hex byte strings. */

static char *
hexstr(const char *s) {
	unsigned char *b;
	parseBytes(s, &b);
	return (char *)b;
}

static void
printStrHex(const char *s) {
	if (!s)
		printf("null");
	else if (!*s)
		printf("-");
	else
		printBytesHex((const unsigned char *)s, (int)strlen(s));
}

static int
doMetaOp(char **tok, int ntok) {
	if (!strcmp(tok[0], "INDEX")) {
		/* INDEX <file>... (plain path tokens) */
		const char **tables = calloc(ntok, sizeof(char *));
		int i;
		for (i = 1; i < ntok; i++) tables[i - 1] = tok[i];
		tables[ntok - 1] = NULL;
		resetLogCounts();
		lou_indexTables(tables);
		printf("I %d", ntok - 1);
		printLogSuffix();
		printf("\n");
		free(tables);
		return 1;
	}
	if (!strcmp(tok[0], "FIND") && ntok >= 2) {
		char *q = hexstr(tok[1]);
		char *r;
		resetLogCounts();
		r = lou_findTable(q);
		printf("F ");
		printStrHex(r);
		printLogSuffix();
		printf("\n");
		free(r);
		free(q);
		return 1;
	}
	if (!strcmp(tok[0], "FINDS") && ntok >= 2) {
		char *q = hexstr(tok[1]);
		char **r;
		int i;
		resetLogCounts();
		r = lou_findTables(q);
		printf("FS");
		if (!r)
			printf(" null");
		else {
			if (!r[0]) printf(" .");
			for (i = 0; r[i]; i++) {
				printf(" ");
				printStrHex(r[i]);
				free(r[i]);
			}
			free(r);
		}
		printLogSuffix();
		printf("\n");
		free(q);
		return 1;
	}
	if (!strcmp(tok[0], "INFO") && ntok >= 3) {
		char *k = hexstr(tok[2]);
		char *r;
		resetLogCounts();
		r = lou_getTableInfo(tok[1], k);
		printf("N ");
		printStrHex(r);
		printLogSuffix();
		printf("\n");
		free(r);
		free(k);
		return 1;
	}
	if (!strcmp(tok[0], "LIST")) {
		char **r;
		int i;
		resetLogCounts();
		r = lou_listTables();
		printf("LS");
		if (!r)
			printf(" null");
		else {
			if (!r[0]) printf(" .");
			for (i = 0; r[i]; i++) {
				printf(" ");
				printStrHex(r[i]);
				free(r[i]);
			}
			free(r);
		}
		printLogSuffix();
		printf("\n");
		return 1;
	}
	if (!strcmp(tok[0], "RESOLVE") && ntok >= 3) {
		/* RESOLVE <list> <base|-> : the resolved file names, in order */
		char **r;
		int i;
		resetLogCounts();
		r = _lou_resolveTable(tok[1], strcmp(tok[2], "-") ? tok[2] : NULL);
		printf("RS");
		if (!r)
			printf(" null");
		else {
			if (!r[0]) printf(" .");
			for (i = 0; r[i]; i++) {
				printf(" %s", r[i]);
				free(r[i]);
			}
			free(r);
		}
		printLogSuffix();
		printf("\n");
		return 1;
	}
	if (!strcmp(tok[0], "TABLEPATH")) {
		char *p = _lou_getTablePath();
		printf("TP %s\n", p ? p : "null");
		free(p);
		return 1;
	}
	if (!strcmp(tok[0], "DATAPATH") && ntok >= 2) {
		lou_setDataPath(strcmp(tok[1], "-") ? tok[1] : NULL);
		printf("OK\n");
		return 1;
	}
	if (!strcmp(tok[0], "PWD")) {
		/* PWD : the working directory of the harness */
		char *d = getcwd(NULL, 0);
		printf("PWD %s\n", d ? d : "null");
		free(d);
		return 1;
	}
	if (!strcmp(tok[0], "MKDIRP") && ntok >= 2) {
		/* MKDIRP <path> : mkdir -p */
		char *p = strdup(tok[1]), *c;
		for (c = p + 1; *c; c++)
			if (*c == '/') {
				*c = 0;
				mkdir(p, 0777);
				*c = '/';
			}
		mkdir(p, 0777);
		free(p);
		{
			struct stat st;
			printf(stat(tok[1], &st) == 0 && S_ISDIR(st.st_mode) ? "OK\n" : "FAIL\n");
		}
		return 1;
	}
	if (!strcmp(tok[0], "ENVSET") && ntok >= 3) {
		/* ENVSET NAME hexvalue : like ENV but "-" sets the EMPTY string */
		char *v = hexstr(tok[2]);
		setenv(tok[1], v, 1);
		free(v);
		printf("OK\n");
		return 1;
	}
	return 0;
}
