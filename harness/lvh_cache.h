/* lvh_cache.h -- observers for the table cache (C14) and the purity check (C08).
 *
 * The harness is linked with -Wl,--wrap=fopen: every fopen() of the library
 * (and of the harness) arrives in __wrap_fopen, which counts the opens for
 * reading per path and then calls the real fopen.  "A list is compiled at most
 * once / its files are not read again" becomes observable:
 *
 * OPENS            OP <path>:<count> ...   (sorted by path, " ." when none; resets the counters)
 * ENDFREE          lou_free() + forget every table pointer the harness remembers, so that
 *                  LeakSanitizer at exit sees exactly what the library left behind
 */

FILE *__real_fopen(const char *path, const char *mode);

#define MAXOPEN 512
static struct {
	char *path;
	int count;
} openCounts[MAXOPEN];
static int nOpenCounts = 0;

FILE *
__wrap_fopen(const char *path, const char *mode) {
	if (path && mode && mode[0] == 'r') {
		int i;
		for (i = 0; i < nOpenCounts; i++)
			if (!strcmp(openCounts[i].path, path)) break;
		if (i == nOpenCounts && nOpenCounts < MAXOPEN) {
			openCounts[i].path = strdup(path);
			openCounts[i].count = 0;
			nOpenCounts++;
		}
		if (i < nOpenCounts) openCounts[i].count++;
	}
	return __real_fopen(path, mode);
}

#include <dirent.h>
static int baseFds = -1;
static int
countOpenFds(void) {
	int n = 0;
	DIR *d = opendir("/proc/self/fd");
	if (!d) return -1;
	while (readdir(d)) n++;
	closedir(d);
	return n;
}

static int
cmpOpen(const void *a, const void *b) {
	return strcmp(*(char *const *)a, *(char *const *)b);
}

static int
doCacheOp(char **tok, int ntok) {
	if (!strcmp(tok[0], "OPENS")) {
		int i;
		qsort(openCounts, nOpenCounts, sizeof(openCounts[0]), cmpOpen);
		printf("OP");
		for (i = 0; i < nOpenCounts; i++) {
			const char *p = openCounts[i].path;
			const char *base = strrchr(p, '/');
			printf(" %s:%d", base ? base + 1 : p, openCounts[i].count);
			free(openCounts[i].path);
		}
		if (nOpenCounts == 0) printf(" .");
		printf("\n");
		nOpenCounts = 0;
		return 1;
	}
	if (!strcmp(tok[0], "ENDFREE")) {
		lou_free();
		nptrs = 0;
		memset(ptrs, 0, sizeof(ptrs));
		arenaLastTable = NULL;
		/* streams the library opened and never closed: a FILE stays reachable through libc's list of streams, so
		 * LeakSanitizer does not see it; the descriptor table does */
		printf("OK fdleak=%d\n", countOpenFds() - baseFds);
		return 1;
	}
	return 0;
}
