/* lvh_hyph.h -- hyphenation operations of the harness (C17).
 *
 * HYPDUMP <list>
 *   canonical dump of the compiled hyphenation automaton
 *   (table->hyphenStatesArray, written by compileHyphenation).  States are
 *   keyed by the string that leads to them from state 0 (BFS over the
 *   transitions, children in ascending character order, first visit wins), so
 *   state renumbering is harmless.  Output (one line):
 *     HD none                                   no table / no dictionary
 *     HD n=<states reached> | <state> | <state> ...
 *   <state> = <key> <pattern> <fallback> <trans>
 *     key      hex words of the prefix ("-" = root)
 *     pattern  "-" when hyphenPattern == 0, else "p" followed by the digit string
 *     fallback "^" for the no-state sentinel, else the key of the fallback state, "?<n>" when that
 *              state was not reached from the root
 *     trans    "." when none, else comma separated, ascending by character:
 *              <ch> when the target's key is key+ch, <ch>><targetkey> otherwise
 *   (the number of states of the array is not stored in the table, so only what
 *   is reachable from state 0 is visible -- the same is true for hyphenateWord)
 *
 * HYPCLS <list> <widehex>
 *   the character classes lou_hyphenate uses, read from the compiled table the
 *   way getChar/toLowercase/isHyphen of lou_translateString.c read them:
 *     HC <c>:<L|->:<H|->:<lower> ...
 */

typedef struct {
	int state;
	int keyOff; /* offset into keyPool */
	int keyLen;
} HypNode;

static void
hypPrintKey(const widechar *pool, const HypNode *n) {
	if (n->keyLen == 0)
		fputs("-", stdout);
	else
		printWide(pool + n->keyOff, n->keyLen);
}

static int
hypTransCmp(const void *a, const void *b) {
	const HyphenationTrans *x = a, *y = b;
	return (int)x->ch - (int)y->ch;
}

static void
doHypDump(const char *list) {
	const TranslationTableHeader *t = lou_getTable(list);
	const HyphenationState *states;
	HypNode *nodes;
	int *nodeOf; /* state number -> node index + 1 */
	size_t nodeOfCap;
	const unsigned int noState = sizeof(states->fallbackState) == 2 ? 0xffffu : 0xffffffffu;
	widechar *pool;
	size_t poolLen = 0, poolCap = 1 << 16;
	int nNodes = 0, capNodes = 1024, head, i, k;
	if (!t || !t->hyphenStatesArray) {
		printf("HD none\n");
		return;
	}
	states = (const HyphenationState *)&t->ruleArea[t->hyphenStatesArray];
	nodes = malloc(capNodes * sizeof(HypNode));
	nodeOfCap = 1 << 16;
	nodeOf = calloc(nodeOfCap, sizeof(int));
	pool = malloc(poolCap * sizeof(widechar));
	nodes[0].state = 0;
	nodes[0].keyOff = 0;
	nodes[0].keyLen = 0;
	nNodes = 1;
	nodeOf[0] = 1;
	for (head = 0; head < nNodes; head++) {
		const HyphenationState *s = &states[nodes[head].state];
		HyphenationTrans *tr;
		if (!s->trans.offset || !s->numTrans) continue;
		tr = malloc(s->numTrans * sizeof(HyphenationTrans));
		memcpy(tr, &t->ruleArea[s->trans.offset], s->numTrans * sizeof(HyphenationTrans));
		qsort(tr, s->numTrans, sizeof(HyphenationTrans), hypTransCmp);
		for (k = 0; k < s->numTrans; k++) {
			unsigned int target = tr[k].newState;
			int len = nodes[head].keyLen;
			if (target >= nodeOfCap) {
				size_t nc = nodeOfCap;
				while (target >= nc) nc *= 2;
				nodeOf = realloc(nodeOf, nc * sizeof(int));
				memset(nodeOf + nodeOfCap, 0, (nc - nodeOfCap) * sizeof(int));
				nodeOfCap = nc;
			}
			if (nodeOf[target]) continue;
			if (nNodes == capNodes) {
				capNodes *= 2;
				nodes = realloc(nodes, capNodes * sizeof(HypNode));
			}
			if (poolLen + len + 1 > poolCap) {
				poolCap = (poolCap + len + 1) * 2;
				pool = realloc(pool, poolCap * sizeof(widechar));
			}
			memcpy(pool + poolLen, pool + nodes[head].keyOff, len * sizeof(widechar));
			pool[poolLen + len] = tr[k].ch;
			nodes[nNodes].state = target;
			nodes[nNodes].keyOff = (int)poolLen;
			nodes[nNodes].keyLen = len + 1;
			poolLen += len + 1;
			nodeOf[target] = ++nNodes;
		}
		free(tr);
	}
	printf("HD n=%d", nNodes);
	for (i = 0; i < nNodes; i++) {
		const HyphenationState *s = &states[nodes[i].state];
		printf(" | ");
		hypPrintKey(pool, &nodes[i]);
		if (s->hyphenPattern)
			printf(" p%s ", (const char *)&t->ruleArea[s->hyphenPattern]);
		else
			printf(" - ");
		if (s->fallbackState == noState)
			printf("^");
		else if (s->fallbackState < nodeOfCap && nodeOf[s->fallbackState])
			hypPrintKey(pool, &nodes[nodeOf[s->fallbackState] - 1]);
		else
			printf("?%u", (unsigned int)s->fallbackState);
		printf(" ");
		if (!s->trans.offset || !s->numTrans)
			printf(".");
		else {
			HyphenationTrans *tr = malloc(s->numTrans * sizeof(HyphenationTrans));
			memcpy(tr, &t->ruleArea[s->trans.offset], s->numTrans * sizeof(HyphenationTrans));
			qsort(tr, s->numTrans, sizeof(HyphenationTrans), hypTransCmp);
			for (k = 0; k < s->numTrans; k++) {
				const HypNode *tn = &nodes[nodeOf[tr[k].newState] - 1];
				if (k) printf(",");
				printf("%04x", tr[k].ch);
				if (!(tn->keyLen == nodes[i].keyLen + 1 &&
							memcmp(pool + tn->keyOff, pool + nodes[i].keyOff,
									nodes[i].keyLen * sizeof(widechar)) == 0 &&
							pool[tn->keyOff + tn->keyLen - 1] == tr[k].ch)) {
					printf(">");
					hypPrintKey(pool, tn);
				}
			}
			free(tr);
		}
	}
	printf("\n");
	free(nodes);
	free(nodeOf);
	free(pool);
}

static const TranslationTableCharacter *
hypGetChar(widechar c, const TranslationTableHeader *t) {
	TranslationTableOffset offset = t->characters[_lou_charHash(c)];
	while (offset) {
		const TranslationTableCharacter *ch =
				(const TranslationTableCharacter *)&t->ruleArea[offset];
		if (ch->value == c) return ch;
		offset = ch->next;
	}
	return NULL;
}

static void
doHypCls(const char *list, const char *hex) {
	const TranslationTableHeader *t = lou_getTable(list);
	widechar *in;
	int n = parseWide(hex, &in), i;
	if (!t) {
		printf("HC none\n");
		free(in);
		return;
	}
	printf("HC");
	for (i = 0; i < n; i++) {
		const TranslationTableCharacter *ch = hypGetChar(in[i], t);
		int letter = 0, hyphen = 0;
		widechar lower = in[i];
		if (ch) {
			TranslationTableOffset off = ch->otherRules;
			letter = (ch->attributes & CTC_Letter) ? 1 : 0;
			while (off) {
				const TranslationTableRule *r = (const TranslationTableRule *)&t->ruleArea[off];
				if (r->opcode == CTO_Hyphen) {
					hyphen = 1;
					break;
				}
				off = r->dotsnext;
			}
			if (ch->mode & CTC_UpperCase) {
				const TranslationTableCharacter *c = ch;
				if (c->basechar)
					c = (const TranslationTableCharacter *)&t->ruleArea[c->basechar];
				while (1) {
					if ((c->mode & (ch->mode & ~CTC_UpperCase)) == (ch->mode & ~CTC_UpperCase)) {
						lower = c->value;
						break;
					}
					if (!c->linked) break;
					c = (const TranslationTableCharacter *)&t->ruleArea[c->linked];
				}
			}
		}
		printf(" %04x:%s:%s:%04x", in[i], letter ? "L" : "-", hyphen ? "H" : "-", lower);
	}
	if (n == 0) printf(" .");
	printf("\n");
	free(in);
}

static int
doHyphOp(char **tok, int ntok) {
	if (!strcmp(tok[0], "HYPDUMP") && ntok >= 2) {
		doHypDump(tok[1]);
		return 1;
	}
	if (!strcmp(tok[0], "HYPCLS") && ntok >= 3) {
		doHypCls(tok[1], tok[2]);
		return 1;
	}
	return 0;
}
