/* lvh_log.h -- log sink operations of the harness (C19).
 *
 * LOGFILE <path|->   lou_logFile(path) ("-" = NULL)
 * LOGEND             lou_logEnd()
 * LOGPRINT <hex>     lou_logPrint("%s", text)   (what the default sink does)
 * LOGMSG <level> <hex>  _lou_logMessage(level, "%s", text)  (a message of any level)
 * READFILE <path>    RF <hex contents> | RF null (cannot be opened)
 */

static int
doLogOp(char **tok, int ntok) {
	if (!strcmp(tok[0], "LOGFILE") && ntok >= 2) {
		lou_logFile(strcmp(tok[1], "-") ? tok[1] : NULL);
		printf("OK\n");
		return 1;
	}
	if (!strcmp(tok[0], "LOGEND")) {
		lou_logEnd();
		printf("OK\n");
		return 1;
	}
	if (!strcmp(tok[0], "LOGPRINT") && ntok >= 2) {
		unsigned char *b;
		parseBytes(tok[1], &b);
		lou_logPrint("%s", (char *)b);
		free(b);
		printf("OK\n");
		return 1;
	}
	if (!strcmp(tok[0], "LOGMSG") && ntok >= 3) {
		unsigned char *b;
		parseBytes(tok[2], &b);
		resetLogCounts();
		_lou_logMessage((logLevels)atoi(tok[1]), "%s", (char *)b);
		free(b);
		printf("M");
		printLogSuffix();
		printf("\n");
		return 1;
	}
	if (!strcmp(tok[0], "READFILE") && ntok >= 2) {
		FILE *f = fopen(tok[1], "rb");
		printf("RF ");
		if (!f)
			printf("null");
		else {
			int c, n = 0;
			while ((c = fgetc(f)) != EOF) {
				printf("%02x", c);
				n++;
			}
			if (!n) printf("-");
			fclose(f);
		}
		printf("\n");
		return 1;
	}
	return 0;
}
