/* lvh.c -- liblouis verification harness.
 *
 * Reads a script on stdin (one operation per line), runs each operation
 * against the liblouis objects compiled from /repo's current working tree
 * (with -DLIBLOUIS_VERIF, under ASan+UBSan), and prints exactly one canonical
 * result line per operation on stdout.  Same line protocol as the Lean model
 * driver (lean/Main.lean).  See DESIGN.md section 5.2.
 *
 * Wide strings are written as concatenated 4-digit hex words ("-" = empty),
 * byte strings as concatenated 2-digit hex bytes ("-" = empty), int arrays
 * as comma separated decimals ("-" = absent, "" never occurs: empty = ".").
 */
#include "config.h"
#include <stdio.h>
#include <stdlib.h>
#include <string.h>
#include <stdarg.h>
#include <unistd.h>
#include <errno.h>
#include <sys/stat.h>
#include <sys/types.h>
#include <dirent.h>
#include "internal.h"

#define MAXTOK 64
#define MAXLINE (1 << 22)

/* ------------------------------------------------------------------ util */

static char *linebuf;

static int
hexval(int c) {
	if (c >= '0' && c <= '9') return c - '0';
	if (c >= 'a' && c <= 'f') return c - 'a' + 10;
	if (c >= 'A' && c <= 'F') return c - 'A' + 10;
	return -1;
}

/* parse hex words; returns count; *out malloc'ed with EXACTLY count elements */
static int
parseWide(const char *s, widechar **out) {
	int n = 0, i;
	if (strcmp(s, "-") == 0) {
		*out = malloc(0);
		return 0;
	}
	n = (int)strlen(s) / 4;
	*out = malloc(n * sizeof(widechar));
	for (i = 0; i < n; i++)
		(*out)[i] = (widechar)((hexval(s[4 * i]) << 12) | (hexval(s[4 * i + 1]) << 8) |
				(hexval(s[4 * i + 2]) << 4) | hexval(s[4 * i + 3]));
	return n;
}

static int
parseBytes(const char *s, unsigned char **out) {
	int n, i;
	if (strcmp(s, "-") == 0) {
		*out = malloc(1);
		(*out)[0] = 0;
		return 0;
	}
	n = (int)strlen(s) / 2;
	*out = malloc(n + 1);
	for (i = 0; i < n; i++)
		(*out)[i] = (unsigned char)((hexval(s[2 * i]) << 4) | hexval(s[2 * i + 1]));
	(*out)[n] = 0;
	return n;
}

static void
printWide(const widechar *w, int n) {
	int i;
	if (n <= 0) {
		fputs("-", stdout);
		return;
	}
	for (i = 0; i < n; i++) printf("%04x", w[i]);
}

static void
printBytesHex(const unsigned char *b, int n) {
	int i;
	if (n <= 0) {
		fputs("-", stdout);
		return;
	}
	for (i = 0; i < n; i++) printf("%02x", b[i]);
}

static void
printInts(const int *a, int n) {
	int i;
	if (n <= 0) {
		fputs(".", stdout);
		return;
	}
	for (i = 0; i < n; i++) printf(i ? ",%d" : "%d", a[i]);
}

/* ------------------------------------------------------------------ logging */

static int logDump = 0;
static int errCount = 0, warnCount = 0, msgCount = 0;
#define MAXLOG 4096
static struct {
	int level;
	char *text;
} logs[MAXLOG];
static int nlogs = 0;

static void EXPORT_CALL
logcb(logLevels level, const char *message) {
	msgCount++;
	if (level >= LOU_LOG_ERROR) errCount++;
	else if (level >= LOU_LOG_WARN)
		warnCount++;
	if (logDump && nlogs < MAXLOG) {
		logs[nlogs].level = level;
		logs[nlogs].text = strdup(message);
		nlogs++;
	}
}

static void
resetLogCounts(void) {
	int i;
	errCount = warnCount = msgCount = 0;
	for (i = 0; i < nlogs; i++) free(logs[i].text);
	nlogs = 0;
}

static void
printLogSuffix(void) {
	int i;
	printf(" e=%d w=%d", errCount, warnCount);
	if (logDump) {
		printf(" | LOG");
		for (i = 0; i < nlogs; i++) {
			printf(" %d:", logs[i].level);
			printBytesHex((const unsigned char *)logs[i].text, (int)strlen(logs[i].text));
		}
		if (nlogs == 0) printf(" .");
	}
}

/* ------------------------------------------------------------------ hooks */

static int traceOn = 0, allocLogOn = 0, arenaLogOn = 0;
static long tickBudget = 0;
static long ticks[16];
static long tickTotal = 0;
static int tickRecord = 0;

/* trace records are accumulated in a growable string */
static char *trbuf = NULL;
static size_t trlen = 0, trcap = 0;

static void
trprintf(const char *fmt, ...) {
	va_list ap;
	int n;
	for (;;) {
		va_start(ap, fmt);
		n = vsnprintf(trbuf ? trbuf + trlen : NULL, trbuf ? trcap - trlen : 0, fmt, ap);
		va_end(ap);
		if (trbuf && (size_t)n < trcap - trlen) {
			trlen += n;
			return;
		}
		trcap = (trcap + n + 64) * 2;
		trbuf = realloc(trbuf, trcap);
	}
}

static void
trWide(const widechar *w, int n) {
	int i;
	if (n <= 0) {
		trprintf("-");
		return;
	}
	for (i = 0; i < n; i++) trprintf("%04x", w[i]);
}

static void
trInts(const int *a, int n) {
	int i;
	if (n <= 0) {
		trprintf(".");
		return;
	}
	for (i = 0; i < n; i++) trprintf(i ? ",%d" : "%d", a[i]);
}

static widechar *lastPassOut = NULL;
static int lastPassOutLen = 0;

static void
hookPass(int dir, int passNo, const widechar *in, int inlen, const widechar *out,
		int outlen, int outmax, const int *map, int realInlen, int cursorPosition,
		int cursorStatus) {
	if (!traceOn) return;
	free(lastPassOut);
	lastPassOut = malloc((outlen > 0 ? outlen : 1) * sizeof(widechar));
	memcpy(lastPassOut, out, (outlen > 0 ? outlen : 0) * sizeof(widechar));
	lastPassOutLen = outlen;
	trprintf(" | P %d %d ", dir, passNo);
	trWide(in, inlen);
	trprintf(" ");
	trWide(out, outlen);
	trprintf(" %d ", outmax);
	/* forward: map indexed by output position; backward: by input position
	 * (only entries below realInlen are meaningful) */
	if (dir == 0)
		trInts(map, outlen);
	else
		trInts(map, realInlen);
	trprintf(" %d %d %d", realInlen, cursorPosition, cursorStatus);
}

static void
hookFinalMap(int dir, const int *posMapping, int n, int inlen, int outlen) {
	if (!traceOn) return;
	trprintf(" | M %d ", dir);
	trInts(posMapping, n);
	trprintf(" %d %d", inlen, outlen);
}

static void
hookAlloc(int buffer, int index, int srcmax, int destmax, int capacity) {
	if (!allocLogOn) return;
	trprintf(" | A %d %d %d %d %d", buffer, index, srcmax, destmax, capacity);
}

static const void *arenaLastTable = NULL;
static void
hookArena(const void *table, int isDisplay, unsigned int offset, int size,
		unsigned int tableSize) {
	if (!arenaLogOn) return;
	trprintf(" | O %d %u %d %u", isDisplay, offset, size, tableSize);
	arenaLastTable = table;
}

static void
hookTick(int site, int pos, int inlen, int outlen, int outmax, int posInc) {
	if (site >= 0 && site < 16) ticks[site]++;
	tickTotal++;
	if (tickRecord) trprintf(" | T %d %d %d %d %d %d", site, pos, inlen, outlen, outmax, posInc);
	if (tickBudget > 0 && tickTotal > tickBudget) {
		printf("FAULT kind=tick-budget site=%d pos=%d inlen=%d outlen=%d ticks=%ld\n", site,
				pos, inlen, outlen, tickTotal);
		fflush(stdout);
		_exit(77);
	}
}

static void
resetTrace(void) {
	trlen = 0;
	if (trbuf) trbuf[0] = 0;
	memset(ticks, 0, sizeof(ticks));
	tickTotal = 0;
}

static void
printTraceSuffix(void) {
	int i;
	if (tickBudget > 0 || tickRecord) {
		printf(" | K");
		for (i = 0; i < 9; i++) printf(" %ld", ticks[i]);
	}
	if (trlen) fputs(trbuf, stdout);
}

/* ------------------------------------------------------------------ pointer ids */

#define MAXPTR 4096
static const void *ptrs[MAXPTR];
static int nptrs = 0;
static int
ptrId(const void *p) {
	int i;
	if (!p) return 0;
	for (i = 0; i < nptrs; i++)
		if (ptrs[i] == p) return i + 1;
	if (nptrs < MAXPTR) ptrs[nptrs++] = p;
	return nptrs;
}

/* ------------------------------------------------------------------ operations */

/* FWD|BWD <list> <mode> <outcap> <cursor|-> <argmask> <in> <typeform|-> <spacing|->
 * argmask: 1 typeform, 2 spacing, 4 outputPos, 8 inputPos, 16 cursorPos,
 *          32 use the *String wrapper, 64 use lou_translatePrehyphenated (no hyphen arrays),
 *          128 request the applied-rule trace (via _lou_translate/_lou_backTranslate)
 *          256 pass a separate display table (next token after spacing) */
/* HOOK inslack N: the last N elements of the input token belong to the caller's array but not to the declared
 * input (the text is a prefix of a longer buffer, which is ordinary use): *inlen is passed as length - N */
static int inSlack = 0;

static void
doTranslate(int back, char **tok, int ntok) {
	const char *list;
	int mode, outcap, argmask, cursor = -1, haveCursor;
	widechar *in, *out;
	int inlen, outlen, n, i, ret;
	formtype *typeform = NULL;
	char *spacing = NULL;
	int *outputPos = NULL, *inputPos = NULL;
	int *cursorPos = NULL;
	int origInlen;
	const TranslationTableRule *rules[512];
	int rulesLen = 512;
	const char *displayList = NULL;
	if (ntok < 9) {
		printf("BADOP\n");
		return;
	}
	list = tok[1];
	mode = atoi(tok[2]);
	outcap = atoi(tok[3]);
	haveCursor = strcmp(tok[4], "-") != 0;
	if (haveCursor) cursor = atoi(tok[4]);
	argmask = atoi(tok[5]);
	inlen = parseWide(tok[6], &in);
	if (inSlack > 0 && inlen > inSlack) inlen -= inSlack;
	origInlen = inlen;
	outlen = outcap;
	out = malloc((outcap > 0 ? outcap : 0) * sizeof(widechar));
	n = inlen > outcap ? inlen : outcap;
	if (n < 0) n = 0;
	if (argmask & 1) {
		widechar *tf;
		int tn = parseWide(tok[7], &tf);
		/* back-translation: typeform and spacing are outputs of exactly outlen elements */
		int tsz = back ? (outcap > 0 ? outcap : 0) : n;
		typeform = malloc(tsz * sizeof(formtype));
		memset(typeform, 0, tsz * sizeof(formtype));
		for (i = 0; i < tn && i < tsz; i++) typeform[i] = tf[i];
		free(tf);
	}
	if (argmask & 2) {
		unsigned char *sp;
		int sn = parseBytes(tok[8], &sp);
		int ssz = back ? (outcap > 0 ? outcap : 0) : n + 1;
		spacing = malloc(ssz);
		memset(spacing, 0, ssz);
		for (i = 0; i < sn && i < ssz; i++) spacing[i] = (char)sp[i];
		free(sp);
	}
	if (argmask & 4) {
		outputPos = malloc((inlen > 0 ? inlen : 0) * sizeof(int));
		for (i = 0; i < inlen; i++) outputPos[i] = -7777;
	}
	if (argmask & 8) {
		inputPos = malloc((outcap > 0 ? outcap : 0) * sizeof(int));
		for (i = 0; i < outcap; i++) inputPos[i] = -7777;
	}
	if (argmask & 16) cursorPos = &cursor;
	if ((argmask & 256) && ntok > 9) displayList = tok[9];
	for (i = 0; i < outcap; i++) out[i] = 0xeeee;
	resetLogCounts();
	resetTrace();
	if (argmask & 128) {
		if (back)
			ret = _lou_backTranslate(list, displayList ? displayList : list, in, &inlen, out,
					&outlen, typeform, spacing, outputPos, inputPos, cursorPos, mode, rules,
					&rulesLen);
		else
			ret = _lou_translate(list, displayList ? displayList : list, in, &inlen, out,
					&outlen, typeform, spacing, outputPos, inputPos, cursorPos, mode, rules,
					&rulesLen);
	} else if (displayList) {
		if (back)
			ret = _lou_backTranslate(list, displayList, in, &inlen, out, &outlen, typeform,
					spacing, outputPos, inputPos, cursorPos, mode, NULL, NULL);
		else
			ret = _lou_translate(list, displayList, in, &inlen, out, &outlen, typeform,
					spacing, outputPos, inputPos, cursorPos, mode, NULL, NULL);
	} else if (argmask & 32) {
		if (back)
			ret = lou_backTranslateString(
					list, in, &inlen, out, &outlen, typeform, spacing, mode);
		else
			ret = lou_translateString(list, in, &inlen, out, &outlen, typeform, spacing, mode);
	} else if ((argmask & 64) && !back) {
		ret = lou_translatePrehyphenated(list, in, &inlen, out, &outlen, typeform, spacing,
				outputPos, inputPos, cursorPos, NULL, NULL, mode);
	} else {
		if (back)
			ret = lou_backTranslate(list, in, &inlen, out, &outlen, typeform, spacing,
					outputPos, inputPos, cursorPos, mode);
		else
			ret = lou_translate(list, in, &inlen, out, &outlen, typeform, spacing, outputPos,
					inputPos, cursorPos, mode);
	}
	printf("R %d %d %d ", ret, inlen, outlen);
	/* whole caller arrays are printed (not only the reported prefix) so that a
	 * write beyond the reported length but inside the array is visible too */
	{
		int shown = outlen;
		if (shown > outcap) shown = outcap;
		if (shown < 0) shown = 0;
		printWide(out, ret ? shown : 0);
		printf(" tf=");
		if (typeform) {
			if (back)
				printBytesHex((unsigned char *)typeform, ret ? shown : 0);
			else
				printWide(typeform, ret ? shown : 0);
		} else
			printf("-");
		printf(" sp=");
		if (spacing)
			printBytesHex((unsigned char *)spacing,
					(int)strnlen(spacing, back ? (outcap > 0 ? outcap : 0) : n + 1));
		else
			printf("-");
		printf(" op=");
		if (outputPos) {
			int m = inlen;
			if (m > origInlen) m = origInlen;
			if (ret && m > 0)
				printInts(outputPos, m);
			else
				printf(".");
		} else
			printf("-");
		printf(" ip=");
		if (inputPos) {
			if (ret && shown > 0)
				printInts(inputPos, shown);
			else
				printf(".");
		} else
			printf("-");
		printf(" cur=");
		if (cursorPos)
			printf("%d", cursor);
		else
			printf("-");
	}
	if (argmask & 128) {
		if (!ret) rulesLen = 0; /* a failing call does not report applied rules */
		printf(" rules=");
		if (rulesLen <= 0) printf(".");
		for (i = 0; i < rulesLen && i < 512; i++) {
			const TranslationTableRule *r = rules[i];
			if (i) printf(",");
			if (!r) {
				printf("null");
				continue;
			}
			printf("%d:", (int)r->opcode);
			printWide(r->charsdots, r->charslen);
			printf(":");
			printWide(r->charsdots + r->charslen, r->dotslen);
		}
	}
	printLogSuffix();
	printTraceSuffix();
	if (traceOn) {
		const TranslationTableHeader *t = _lou_getTranslationTable(list);
		const DisplayTableHeader *dt = _lou_getDisplayTable(displayList ? displayList : list);
		if (t) printf(" | TI %d %d", t->corrections ? 1 : 0, (int)t->numPasses);
		if (dt) {
			int first = 1, j;
			printf(" | D ");
			if (!back) {
				for (i = 0; i < lastPassOutLen; i++) {
					for (j = 0; j < i; j++)
						if (lastPassOut[j] == lastPassOut[i]) break;
					if (j < i) continue;
					printf(first ? "%04x:%04x" : ",%04x:%04x", lastPassOut[i],
							_lou_getCharForDots(lastPassOut[i], dt));
					first = 0;
				}
			} else {
				for (i = 0; i < origInlen && in[i]; i++) {
					for (j = 0; j < i; j++)
						if (in[j] == in[i]) break;
					if (j < i) continue;
					printf(first ? "%04x:%04x" : ",%04x:%04x", in[i],
							_lou_getDotsForChar(in[i], dt));
					first = 0;
				}
			}
			if (first) printf(".");
		}
		lastPassOutLen = 0;
	}
	printf("\n");
	free(in);
	free(out);
	free(typeform);
	free(spacing);
	free(outputPos);
	free(inputPos);
}

/* HYP <list> <mode> <in> */
static void
doHyphenate(char **tok, int ntok) {
	widechar *in;
	int inlen, ret, mode, i;
	char *hyphens;
	if (ntok < 4) {
		printf("BADOP\n");
		return;
	}
	mode = atoi(tok[2]);
	inlen = parseWide(tok[3], &in);
	hyphens = malloc(inlen + 1);
	memset(hyphens, 'u', inlen + 1);
	resetLogCounts();
	resetTrace();
	ret = lou_hyphenate(tok[1], in, inlen, hyphens, mode);
	printf("H %d ", ret);
	if (ret) {
		/* print exactly inlen+1 bytes as hex so that a missing NUL or stray
		 * characters are visible */
		printBytesHex((unsigned char *)hyphens, inlen + 1);
	} else {
		/* on failure nothing may have been written */
		int untouched = 1;
		for (i = 0; i < inlen + 1; i++)
			if (hyphens[i] != 'u') untouched = 0;
		printf(untouched ? "untouched" : "touched");
	}
	printLogSuffix();
	printTraceSuffix();
	printf("\n");
	free(in);
	free(hyphens);
}

/* C2D|D2C <list> <mode> <in> */
static void
doConvert(int d2c, char **tok, int ntok) {
	widechar *in, *out;
	int n, ret, mode, i;
	if (ntok < 4) {
		printf("BADOP\n");
		return;
	}
	mode = atoi(tok[2]);
	n = parseWide(tok[3], &in);
	out = malloc(n * sizeof(widechar));
	for (i = 0; i < n; i++) out[i] = 0xeeee;
	resetLogCounts();
	resetTrace();
	if (d2c)
		ret = lou_dotsToChar(tok[1], in, out, n, mode);
	else
		ret = lou_charToDots(tok[1], in, out, n, mode);
	printf("V %d ", ret);
	printWide(out, ret ? n : 0);
	printLogSuffix();
	printf("\n");
	free(in);
	free(out);
}

static void
doTbl(char **tok, int ntok) {
	unsigned char *b;
	int n;
	FILE *f;
	if (ntok < 3) {
		printf("BADOP\n");
		return;
	}
	n = parseBytes(tok[2], &b);
	f = fopen(tok[1], "wb");
	if (!f) {
		printf("TBLFAIL %s\n", strerror(errno));
		free(b);
		return;
	}
	fwrite(b, 1, n, f);
	fclose(f);
	free(b);
	printf("OK\n");
}

#include "lvh_dump.h"
#include "lvh_meta.h"
#include "lvh_log.h"
#include "lvh_lex.h"
#include "lvh_hyph.h"
#include "lvh_cache.h"

int
main(int argc, char **argv) {
	char *tok[MAXTOK];
	linebuf = malloc(MAXLINE);
	setvbuf(stdout, NULL, _IOLBF, 0);
	lou_registerLogCallback(logcb);
	_lou_verif.pass = hookPass;
	_lou_verif.finalMap = hookFinalMap;
	_lou_verif.alloc = hookAlloc;
	_lou_verif.arena = hookArena;
	_lou_verif.tick = hookTick;
	baseFds = countOpenFds();
	if (argc > 1 && chdir(argv[1]) != 0) {
		perror("chdir");
		return 2;
	}
	while (fgets(linebuf, MAXLINE, stdin)) {
		int ntok = 0;
		char *p = linebuf;
		size_t L = strlen(linebuf);
		while (L > 0 && (linebuf[L - 1] == '\n' || linebuf[L - 1] == '\r')) linebuf[--L] = 0;
		if (L == 0 || linebuf[0] == '#') continue;
		while (*p && ntok < MAXTOK) {
			while (*p == ' ') p++;
			if (!*p) break;
			tok[ntok++] = p;
			while (*p && *p != ' ') p++;
			if (*p) *p++ = 0;
		}
		if (ntok == 0) continue;
		if (!strcmp(tok[0], "CASE")) {
			printf("CASE %s\n", ntok > 1 ? tok[1] : "?");
		} else if (!strcmp(tok[0], "FWD")) {
			doTranslate(0, tok, ntok);
		} else if (!strcmp(tok[0], "BWD")) {
			doTranslate(1, tok, ntok);
		} else if (!strcmp(tok[0], "HYP")) {
			doHyphenate(tok, ntok);
		} else if (!strcmp(tok[0], "C2D")) {
			doConvert(0, tok, ntok);
		} else if (!strcmp(tok[0], "D2C")) {
			doConvert(1, tok, ntok);
		} else if (!strcmp(tok[0], "TBL")) {
			doTbl(tok, ntok);
		} else if (!strcmp(tok[0], "GET") && ntok >= 2) {
			const void *t;
			resetLogCounts();
			resetTrace();
			t = lou_getTable(tok[1]);
			printf("G %d", ptrId(t));
			printLogSuffix();
			printTraceSuffix();
			printf("\n");
		} else if (!strcmp(tok[0], "CHK") && ntok >= 2) {
			int r;
			resetLogCounts();
			resetTrace();
			r = lou_checkTable(tok[1]);
			printf("C %d", r);
			printLogSuffix();
			printTraceSuffix();
			printf("\n");
		} else if (!strcmp(tok[0], "ADD") && ntok >= 3) {
			unsigned char *b;
			int r;
			parseBytes(tok[2], &b);
			resetLogCounts();
			resetTrace();
			r = lou_compileString(tok[1], (char *)b);
			printf("D %d", r);
			printLogSuffix();
			printTraceSuffix();
			printf("\n");
			free(b);
		} else if (!strcmp(tok[0], "FREE")) {
			lou_free();
			nptrs = 0;
			/* lou_free() closes the log file and keeps the callback */
			printf("OK\n");
		} else if (!strcmp(tok[0], "LOGLEVEL") && ntok >= 2) {
			lou_setLogLevel((logLevels)atoi(tok[1]));
			printf("OK\n");
		} else if (!strcmp(tok[0], "LOGCB") && ntok >= 2) {
			if (!strcmp(tok[1], "on"))
				lou_registerLogCallback(logcb);
			else
				lou_registerLogCallback(NULL);
			printf("OK\n");
		} else if (!strcmp(tok[0], "LOGDUMP") && ntok >= 2) {
			logDump = atoi(tok[1]);
			printf("OK\n");
		} else if (!strcmp(tok[0], "HOOK") && ntok >= 3) {
			if (!strcmp(tok[1], "exact"))
				_lou_verif.exactAlloc = atoi(tok[2]);
			else if (!strcmp(tok[1], "trace"))
				traceOn = atoi(tok[2]);
			else if (!strcmp(tok[1], "alloc"))
				allocLogOn = atoi(tok[2]);
			else if (!strcmp(tok[1], "arena"))
				arenaLogOn = atoi(tok[2]);
			else if (!strcmp(tok[1], "budget"))
				tickBudget = atol(tok[2]);
			else if (!strcmp(tok[1], "ticks"))
				tickRecord = atoi(tok[2]);
			else if (!strcmp(tok[1], "inslack"))
				inSlack = atoi(tok[2]);
			printf("OK\n");
		} else if (!strcmp(tok[0], "CWD") && ntok >= 2) {
			printf(chdir(tok[1]) == 0 ? "OK\n" : "FAIL\n");
		} else if (!strcmp(tok[0], "MKDIR") && ntok >= 2) {
			mkdir(tok[1], 0777);
			printf("OK\n");
		} else if (!strcmp(tok[0], "RM") && ntok >= 2) {
			unlink(tok[1]);
			printf("OK\n");
		} else if (!strcmp(tok[0], "ENV") && ntok >= 2) {
			if (ntok >= 3 && strcmp(tok[2], "-") != 0) {
				unsigned char *b;
				parseBytes(tok[2], &b);
				setenv(tok[1], (char *)b, 1);
				free(b);
			} else
				unsetenv(tok[1]);
			printf("OK\n");
		} else if (doDumpOp(tok, ntok)) {
		} else if (doMetaOp(tok, ntok)) {
		} else if (doLogOp(tok, ntok)) {
		} else if (doLexOp(tok, ntok)) {
		} else if (doHyphOp(tok, ntok)) {
		} else if (doCacheOp(tok, ntok)) {
		} else {
			printf("BADOP\n");
		}
		fflush(stdout);
	}
	return 0;
}
